"""
Oracles (DESIGN.md §4.2). NOTHING in this module imports prtpy: objective definitions,
exhaustive optima and enumerators are re-implemented here on plain Python ints / Fractions.
"""
from fractions import Fraction
from itertools import permutations
from collections import Counter
import math

OBJ_NAMES = ("maxmin", "minmax", "diff", "ksmall", "klarge")


# ---------------------------------------------------------------- objectives (own definitions)
def objval(name, sums, kparam=None, weights=None):
    """Value to MINIMISE, by the documented definitions (C20 statement)."""
    s = sorted(sums)
    if name == "maxmin":
        return -s[0]
    if name == "minmax":
        return s[-1]
    if name == "diff":
        return s[-1] - s[0]
    if name == "ksmall":
        return -sum(s[:kparam])
    if name == "klarge":
        return sum(s[-kparam:]) if kparam > 0 else 0
    if name == "wmaxmin":
        return -min(Fraction(x) / Fraction(w) for x, w in zip(sums, weights))
    raise KeyError(name)


# ---------------------------------------------------------------- O1 exhaustive partition oracle
def sum_vectors(values, k):
    """All reachable sorted sum-vectors when `values` are distributed over k bins."""
    states = {(0,) * k}
    for v in sorted(values, reverse=True):
        nxt = set()
        for s in states:
            prev = None
            for i in range(k):
                if s[i] == prev:
                    continue
                prev = s[i]
                t = list(s)
                t[i] += v
                t.sort()
                nxt.add(tuple(t))
        states = nxt
    return states


def diff_opt_fast(values, k):
    """
    Optimal largest-minus-smallest difference over all k-way partitions of non-negative integers: the same exhaustive enumeration of sorted sum-vectors as sum_vectors(), level by
    level, but on numpy arrays (about three times faster; used where instance volume matters). Cross-checked against sum_vectors() by selfcheck() and on every 50th use.
    """
    import numpy as np
    states = np.zeros((1, k), dtype=np.int64)
    eye = np.eye(k, dtype=np.int64)
    for v in sorted(values, reverse=True):
        new = (states[:, None, :] + int(v) * eye[None, :, :]).reshape(-1, k)
        new.sort(axis=1)
        view = np.ascontiguousarray(new).view(np.dtype((np.void, new.dtype.itemsize * k))).ravel()
        _, idx = np.unique(view, return_index=True)
        states = new[idx]
    return int((states[:, -1] - states[:, 0]).min())


def opt_partition(values, k, name, kparam=None, vectors=None):
    vs = vectors if vectors is not None else sum_vectors(values, k)
    return min(objval(name, s, kparam) for s in vs)


def sum_vector_count_estimate(values, k):
    """Cheap upper estimate of O1's work (to keep calls inside the budget)."""
    n = len(values)
    return min(k ** n, math.comb(sum(values) + k, k) if sum(values) < 400 else 10 ** 12)


# ---------------------------------------------------------------- O2 exact bin packing
def min_bins(values, C, limit_nodes=2_000_000):
    """Minimum number of bins of capacity C for the positive `values` (DFS branch and bound)."""
    items = sorted((v for v in values if v > 0), reverse=True)
    if not items:
        return 0
    total = sum(items)
    lb = -(-total // C) if isinstance(C, int) and all(isinstance(v, int) for v in items) else math.ceil(Fraction(total) / Fraction(C))
    best = [len(items)]
    nodes = [0]
    # first-fit-decreasing upper bound
    ffd = []
    for v in items:
        for j in range(len(ffd)):
            if ffd[j] + v <= C:
                ffd[j] += v
                break
        else:
            ffd.append(v)
    best[0] = len(ffd)
    if best[0] == lb:
        return lb
    suffix = [0] * (len(items) + 1)
    for i in range(len(items) - 1, -1, -1):
        suffix[i] = suffix[i + 1] + items[i]

    def rec(i, bins):
        nodes[0] += 1
        if nodes[0] > limit_nodes:
            raise OracleBudget("min_bins")
        if len(bins) >= best[0]:
            return
        if i == len(items):
            best[0] = len(bins)
            return
        free = sum(C - b for b in bins)
        need = suffix[i] - free
        if need > 0 and len(bins) + math.ceil(Fraction(need) / Fraction(C)) >= best[0]:
            return
        v = items[i]
        seen = set()
        for j in range(len(bins)):
            if bins[j] + v <= C and bins[j] not in seen:
                seen.add(bins[j])
                bins[j] += v
                rec(i + 1, bins)
                bins[j] -= v
                if best[0] == lb:
                    return
        bins.append(v)
        rec(i + 1, bins)
        bins.pop()

    rec(0, [])
    return best[0]


class OracleBudget(Exception):
    """The oracle gave up (case becomes inconclusive, never a violation)."""


# ---------------------------------------------------------------- O3 exact bin covering
def max_cover(values, C):
    """Largest number of bins of size C that can be covered (each item used at most once). n <= ~15."""
    vals = [v for v in values if v > 0]
    n = len(vals)
    if n == 0:
        return 0
    if n > 16:
        raise OracleBudget("max_cover")
    if sum(vals) < C:
        return 0
    full = 1 << n
    # f[mask] = (bins covered, partial fill of the open bin) maximised lexicographically
    fb = [0] * full
    fp = [0] * full
    for mask in range(1, full):
        bb, bp = -1, -1
        m = mask
        while m:
            low = m & -m
            i = low.bit_length() - 1
            m ^= low
            prev = mask ^ low
            b, p = fb[prev], fp[prev] + vals[i]
            if p >= C:
                b, p = b + 1, 0
            if b > bb or (b == bb and p > bp):
                bb, bp = b, p
        fb[mask], fp[mask] = bb, bp
    return fb[full - 1]


# ---------------------------------------------------------------- O4 two-way with cardinality bound
def two_way_card_opt(values, d=None):
    """min |sum(A)-sum(B)| over two-way partitions with | |A|-|B| | <= d (d None = unconstrained)."""
    n = len(values)
    if n > 20:
        raise OracleBudget("two_way_card_opt")
    total = sum(values)
    # subset sums grouped by cardinality (sets of achievable sums)
    by_card = [set() for _ in range(n + 1)]
    by_card[0].add(0)
    for v in values:
        for c in range(n - 1, -1, -1):
            if by_card[c]:
                by_card[c + 1].update(s + v for s in by_card[c])
    best = None
    for c in range(n + 1):
        if d is not None and abs(c - (n - c)) > d:
            continue
        for s in by_card[c]:
            val = abs(total - 2 * s)
            if best is None or val < best:
                best = val
    return best


# ---------------------------------------------------------------- O7 relaxed bound oracle
def relaxed_opt(name, sums, R):
    """
    Best (smallest) objective value reachable from integer `sums` by adding a non-negative integer
    vector of total R. Closed forms; cross-checked against brute force by selfcheck().
    """
    s = sorted(sums)
    k = len(s)
    if name == "minmax":
        return max(s[-1], -(-(sum(s) + R) // k))
    if name == "maxmin":
        # largest m with sum(max(0, m - s_i)) <= R
        lo, hi = s[0], s[0] + R
        while lo < hi:
            mid = (lo + hi + 1) // 2
            if sum(max(0, mid - x) for x in s) <= R:
                lo = mid
            else:
                hi = mid - 1
        return -lo
    if name == "diff":
        return relaxed_opt("minmax", s, R) + relaxed_opt("maxmin", s, R)
    raise KeyError(name)


def relaxed_opt_brute(name, sums, R):
    k = len(sums)
    best = None

    def rec(i, left, cur):
        nonlocal best
        if i == k - 1:
            v = objval(name, cur + [sums[i] + left])
            if best is None or v < best:
                best = v
            return
        for x in range(left + 1):
            rec(i + 1, left - x, cur + [sums[i] + x])

    rec(0, R, [])
    return best


# ---------------------------------------------------------------- enumerator oracles (C13)
def window_subsets(values, lo, hi):
    """All index-subsets (as sorted tuples of indices) whose total lies in [lo, hi]."""
    n = len(values)
    out = []
    for mask in range(1 << n):
        t = 0
        idx = []
        for i in range(n):
            if mask >> i & 1:
                t += values[i]
                idx.append(i)
        if lo <= t <= hi:
            out.append(tuple(idx))
    return out


def canon_bins(list_of_bins):
    """Canonical form of a bins-array's contents: multiset of bins, each a multiset of names."""
    return tuple(sorted(tuple(sorted(map(repr, b))) for b in list_of_bins))


def all_pairings_contents(lists1, lists2):
    k = len(lists1)
    return {canon_bins([list(lists1[p[i]]) + list(lists2[i]) for i in range(k)]) for p in permutations(range(k))}


def all_pairings_sums(s1, s2):
    k = len(s1)
    return {tuple(sorted(s1[p[i]] + s2[i] for i in range(k))) for p in permutations(range(k))}


# ---------------------------------------------------------------- validity helpers
def is_partition_of(bins, names):
    """bins (list of lists of names) hold every name of `names` exactly once (as multisets)."""
    flat = Counter()
    for b in bins:
        flat.update(map(_key, b))
    return flat == Counter(map(_key, names))


def multiset_diff(bins, names):
    flat = Counter()
    for b in bins:
        flat.update(map(_key, b))
    want = Counter(map(_key, names))
    return {"missing": sorted((want - flat).elements())[:6], "extra": sorted((flat - want).elements())[:6]}


def _key(x):
    # names may be ints, strs, numpy ints, floats that are integral
    try:
        import numbers
        if isinstance(x, numbers.Integral):
            return ("i", int(x))
        if isinstance(x, numbers.Real):
            return ("r", float(x))
    except Exception:
        pass
    return ("s", str(x))


# ---------------------------------------------------------------- self-consistency (DESIGN §7)
def selfcheck(rng, rounds=60):
    """Cross-check oracles against each other; raises AssertionError on disagreement."""
    for _ in range(rounds):
        k = rng.randint(1, 4)
        s = sorted(rng.randint(0, 6) for _ in range(k))
        R = rng.randint(0, 7)
        for name in ("maxmin", "minmax", "diff"):
            a, b = relaxed_opt(name, s, R), relaxed_opt_brute(name, s, R)
            assert a == b, ("relaxed_opt", name, s, R, a, b)
        n = rng.randint(1, 8)
        vals = [rng.randint(0, 20) for _ in range(n)]
        # O1 (k=2) against subset sums
        tot = sum(vals)
        ss = {0}
        for v in vals:
            ss |= {x + v for x in ss}
        assert opt_partition(vals, 2, "diff") == min(abs(tot - 2 * x) for x in ss), ("O1/O4", vals)
        assert two_way_card_opt(vals, None) == opt_partition(vals, 2, "diff"), ("O4", vals)
        # O2 against planted perfect packing
        C = rng.randint(6, 20)
        m = rng.randint(1, 4)
        planted = []
        for _ in range(m):
            left = C
            while left > 0:
                v = rng.randint(1, left)
                planted.append(v)
                left -= v
        if len(planted) <= 14:
            assert min_bins(planted, C) == m, ("O2", planted, C, m)
            assert max_cover(planted, C) == m, ("O3", planted, C, m)
    return True
