"""
Monitors attached from /verif at run time (no source hooks):
  M2  in-situ contracts on Objective.lower_bound / value_to_minimize (icontract, named conditions, explicit error=),
      wrapper-generators on InExclusionBinTree.generate_tree and Binner.all_combinations
  M4  counting clock for complete_greedy / cbldm
  M6  sys.monitoring probes located by source text (evidence only)
"""
import inspect, sys, time as _time, numbers
from collections import Counter
from contextlib import contextmanager
import numpy as np
from rv import oracles as O
from rv.harness import mod, import_prtpy


class ContractBroken(Exception):
    """A runtime contract (M2) observed a refuting evaluation."""
    def __init__(self, what, witness):
        super().__init__(what)
        self.what = what
        self.witness = witness


# =============================================================================== M2 contracts
def _contract_error():
    return ContractBroken("contract condition returned False", {})


class Contracts:
    """
    mode="raise": a refuting evaluation raises ContractBroken (C13 / C20 verdicts).
    mode="record": refuting evaluations are appended to .broken, the monitored code continues (evidence in other checks).
    """
    def __init__(self, mode="record", max_states=20000):
        self.mode = mode
        self.evals = Counter()
        self.broken = []
        self.states = set()
        self.max_states = max_states
        self._saved = []

    # ---- helpers
    def _fail(self, what, witness):
        if len(self.broken) < 20:
            self.broken.append({"what": what, "witness": witness})
        if self.mode == "raise":
            raise ContractBroken(what, witness)
        return True

    @staticmethod
    def _ints(seq):
        out = []
        for x in seq:
            if isinstance(x, numbers.Integral):
                out.append(int(x))
            elif isinstance(x, numbers.Real) and float(x).is_integer() and abs(float(x)) < 2 ** 53:
                out.append(int(x))
            else:
                return None
        return out

    def install(self):
        import icontract
        prtpy = import_prtpy()
        obj = prtpy.obj
        me = self

        # ---------------- lower_bound contracts (C13a)
        def make_lb(cls, name):
            orig = cls.lower_bound

            def lb_admissible(self, sums, sum_of_remaining_items, result, are_sums_in_ascending_order=False):
                me.evals["lower_bound:" + name] += 1
                try:
                    s = me._ints(list(sums))
                    R = me._ints([sum_of_remaining_items])
                except TypeError:
                    return True
                if s is None or R is None or R[0] < 0 or any(x < 0 for x in s):
                    me.evals["lower_bound_skipped_nonint"] += 1
                    return True
                R = R[0]
                if len(me.states) < me.max_states:
                    me.states.add((name, tuple(s), R))
                best = O.relaxed_opt(name, s, R)
                if not (result <= best):
                    return me._fail("lower bound exceeds the best reachable objective value",
                                    {"objective": name, "sums": s, "remaining": R, "bound": float(result), "best_reachable": best,
                                     "sorted_flag": bool(are_sums_in_ascending_order)})
                if are_sums_in_ascending_order and s == sorted(s):
                    other = orig(self, list(s), R, False)
                    me.evals["lower_bound_flag_pairs"] += 1
                    if other != result:
                        return me._fail("lower bound depends on the sorted flag",
                                        {"objective": name, "sums": s, "remaining": R, "with_flag": float(result), "without_flag": float(other)})
                return True
            wrapped = icontract.ensure(lb_admissible, error=_contract_error)(orig)
            me._saved.append((cls, "lower_bound", orig))
            cls.lower_bound = wrapped

        make_lb(obj.MaximizeTheSmallestSum, "maxmin")
        make_lb(obj.MinimizeTheLargestSum, "minmax")
        make_lb(obj.MinimizeTheDifference, "diff")

        # ---------------- value_to_minimize contracts (C20)
        def make_v(cls, name):
            orig = cls.value_to_minimize

            def value_is_documented_quantity(self, sums, result, are_sums_in_ascending_order=False):
                try:
                    s = me._ints(list(sums))
                except TypeError:
                    s = None
                if s is None:
                    me.evals["value_skipped_nonnumeric"] += 1
                    return True
                me.evals["value:" + name] += 1
                if are_sums_in_ascending_order and s != sorted(s):
                    me.evals["value_flag_on_unsorted"] += 1     # outside the statement (fast path is only promised on sorted input)
                    return True
                kp = getattr(self, "num_smallest_parts", None)
                want = O.objval(name, s, kp)
                if result != want:
                    return me._fail("objective value differs from its documented definition",
                                    {"objective": name, "k": kp, "sums": s, "got": float(result), "want": want,
                                     "sorted_flag": bool(are_sums_in_ascending_order)})
                return True
            wrapped = icontract.ensure(value_is_documented_quantity, error=_contract_error)(orig)
            me._saved.append((cls, "value_to_minimize", orig))
            cls.value_to_minimize = wrapped

        make_v(obj.MaximizeTheSmallestSum, "maxmin")
        make_v(obj.MinimizeTheLargestSum, "minmax")
        make_v(obj.MinimizeTheDifference, "diff")
        make_v(obj.MaximizeKSmallestSums, "ksmall")
        make_v(obj.MinimizeKLargestSums, "klarge")

        # ---------------- generate_tree (in situ: soundness + uniqueness; the window may move while suspended)
        tree_mod = mod("prtpy.inclusion_exclusion_tree")
        T = tree_mod.InExclusionBinTree
        orig_gen = T.generate_tree

        def generate_tree(self):
            me.evals["generate_tree_calls"] += 1
            seen = set()
            names_available = Counter(map(repr, self.items))
            for sub in orig_gen(self):
                me.evals["generate_tree_yields"] += 1
                lo, hi = self.lower_bound, self.upper_bound       # window at yield time
                tot = sum(map(self.valueof, sub))
                key = tuple(sorted(map(repr, sub))) if len(set(map(repr, self.items))) == len(self.items) else None
                if Counter(map(repr, sub)) - names_available:
                    me._fail("in/ex tree yielded something that is not a sub-collection of its items", {"sub": list(map(repr, sub))})
                if tot > hi:
                    me._fail("in/ex tree yielded a sub-collection above its upper bound", {"total": float(tot), "upper": float(hi), "sub": list(map(repr, sub))})
                if tot < lo:
                    me._fail("in/ex tree yielded a sub-collection below its lower bound", {"total": float(tot), "lower": float(lo), "sub": list(map(repr, sub))})
                if key is not None:
                    if key in seen:
                        me._fail("in/ex tree yielded the same sub-collection twice", {"sub": list(key)})
                    seen.add(key)
                yield sub
        me._saved.append((T, "generate_tree", orig_gen))
        T.generate_tree = generate_tree

        # ---------------- all_combinations (in situ: completeness + uniqueness + sums consistent with contents)
        def make_comb(cls, contents):
            orig = cls.all_combinations

            def all_combinations(self, bins1, bins2):
                me.evals["all_combinations_calls"] += 1
                if contents:
                    s1, l1 = bins1
                    s2, l2 = bins2
                    want = O.all_pairings_contents([list(b) for b in l1], [list(b) for b in l2])
                else:
                    want = O.all_pairings_sums([float(x) for x in bins1], [float(x) for x in bins2])
                got = Counter()
                for nb in orig(self, bins1, bins2):
                    me.evals["all_combinations_yields"] += 1
                    if contents:
                        sums, lists = nb
                        key = O.canon_bins(lists)
                        for sm, b in zip(sums, lists):
                            if float(sm) != float(sum(map(self.valueof, b))):
                                me._fail("all_combinations yielded sums inconsistent with contents", {"sums": [float(x) for x in sums], "lists": [list(map(repr, b)) for b in lists]})
                    else:
                        key = tuple(sorted(float(x) for x in nb))
                    got[key] += 1
                    yield nb
                dup = [k for k, c in got.items() if c > 1]
                if dup:
                    me._fail("all_combinations yielded the same pairing more than once", {"contents": contents, "duplicate": repr(dup[0])[:300], "count": got[dup[0]]})
                if set(got) != want:
                    me._fail("all_combinations incomplete or unsound", {"contents": contents, "missing": repr(sorted(want - set(got))[:2])[:300],
                                                                        "extra": repr(sorted(set(got) - want)[:2])[:300]})
            me._saved.append((cls, "all_combinations", orig))
            cls.all_combinations = all_combinations
        make_comb(prtpy.BinnerKeepingSums, False)
        make_comb(prtpy.BinnerKeepingContents, True)
        return self

    def uninstall(self):
        for cls, name, orig in reversed(self._saved):
            setattr(cls, name, orig)
        self._saved = []

    def take_broken(self):
        b, self.broken = self.broken, []
        return b


# =============================================================================== M4 counting clock
class CountingClock:
    """
    perf_counter() returns 1, 2, 3, ...: the time limit becomes an exact number of clock reads. The other second-valued clocks of the time module (monotonic, time,
    process_time) read the same counter, so that a refactoring which switches clocks is still driven deterministically.
    """
    def __init__(self):
        self.n = 0

    def perf_counter(self):
        self.n += 1
        return self.n

    monotonic = time = process_time = perf_counter

    def __getattr__(self, name):
        return getattr(_time, name)


_CLOCK_FUNCS = ("perf_counter", "monotonic", "time", "process_time")


@contextmanager
def counting_clock(module):
    """Replace the module attribute `time` of a prtpy module by a counting clock for the duration of the block."""
    clk = CountingClock()
    had = hasattr(module, "time")
    old = getattr(module, "time", None)
    module.time = clk
    # also names bound directly to a clock function (refactorings such as `from time import perf_counter` or `from time import monotonic as now`)
    rebound = []
    originals = {getattr(_time, f): f for f in _CLOCK_FUNCS}
    for k, v in list(vars(module).items()):
        if callable(v) and not isinstance(v, type) and v in originals:
            rebound.append((k, v))
            setattr(module, k, clk.perf_counter)
    try:
        yield clk
    finally:
        if had:
            module.time = old
        else:
            del module.time
        for k, v in rebound:
            setattr(module, k, v)


# =============================================================================== M6 probes
class Probes:
    """
    sys.monitoring (3.12) probes: count hits of source lines located by text pattern and read locals at return.
    Evidence only: a pattern that is not found makes the probe 'unattached', nothing fails because of it.
    """
    def __init__(self):
        self.counts = Counter()
        self.unattached = []
        self._codes = []
        self._line_map = {}      # code -> {lineno: counter name}
        self._ret_map = {}       # code -> (prefix, [local names])
        self.last_locals = {}
        self.tool = None

    def line(self, func, pattern, name, offset=0):
        """Count executions of the first source line of func containing `pattern` (+offset lines)."""
        try:
            src, start = inspect.getsourcelines(func)
            idx = next(i for i, l in enumerate(src) if pattern in l)
            self._line_map.setdefault(func.__code__, {})[start + idx + offset] = name
        except Exception:
            self.unattached.append(name)
        return self

    def at_return(self, func, prefix, names):
        self._ret_map[func.__code__] = (prefix, list(names))
        return self

    def start(self):
        mon = sys.monitoring
        self.tool = mon.PROFILER_ID
        try:
            mon.use_tool_id(self.tool, "rv-probes")
        except ValueError:
            mon.free_tool_id(self.tool)
            mon.use_tool_id(self.tool, "rv-probes")
        E = mon.events

        def on_line(code, lineno):
            name = self._line_map.get(code, {}).get(lineno)
            if name is None:
                return mon.DISABLE
            self.counts[name] += 1

        def on_return(code, off, retval):
            spec = self._ret_map.get(code)
            if spec is None:
                return mon.DISABLE
            prefix, names = spec
            try:
                loc = sys._getframe(1).f_locals
                vals = {}
                for n in names:
                    if n in loc:
                        v = loc[n]
                        vals[n] = v
                        if isinstance(v, (int, np.integer)):
                            self.counts[f"{prefix}.{n}"] += int(v)
                            if v:
                                self.counts[f"{prefix}.{n}>0"] += 1
                self.last_locals[prefix] = vals
                self.counts[prefix + ".returns"] += 1
            except Exception:
                self.counts[prefix + ".probe_error"] += 1

        mon.register_callback(self.tool, E.LINE, on_line)
        mon.register_callback(self.tool, E.PY_RETURN, on_return)
        for code in set(self._line_map) | set(self._ret_map):
            ev = 0
            if code in self._line_map:
                ev |= E.LINE
            if code in self._ret_map:
                ev |= E.PY_RETURN
            mon.set_local_events(self.tool, code, ev)
            self._codes.append(code)
        return self

    def stop(self):
        mon = sys.monitoring
        for code in self._codes:
            mon.set_local_events(self.tool, code, 0)
        mon.register_callback(self.tool, mon.events.LINE, None)
        mon.register_callback(self.tool, mon.events.PY_RETURN, None)
        mon.free_tool_id(self.tool)
        self._codes = []


def standard_probes():
    """Probes on the search algorithms' own counters and pruning lines (DESIGN §4.1 M6)."""
    p = Probes()
    cg = mod("prtpy.partitioning.complete_greedy")
    p.at_return(cg.anytime, "cg", ["complete_partitions_checked", "times_fast_lower_bound_activated", "times_lower_bound_activated",
                                   "times_heuristic_3_activated", "times_seen_state_skipped", "intermediate_partitions_checked"])
    p.line(cg.anytime, "best_bins, best_objective_value = current_bins, new_objective_value", "cg.incumbent_updates")
    p.line(cg.anytime, "Solution matches global lower bound - stopping", "cg.global_bound_stop")
    ckk = mod("prtpy.partitioning.complete_karmarkar_karp_sy")
    p.line(ckk.optimal, "if lower_bound <= best_difference_so_far:", "ckk.pruned", offset=1)
    p.line(ckk.optimal, "best_difference_so_far = diff", "ckk.incumbent_updates")
    p.line(ckk.generator, "yield best_partition_so_far", "ckkgen.yields")
    snp = mod("prtpy.partitioning.sequential_number_partitioning_sy")
    p.line(snp.rec_generate_sets, "best_partition_so_far = binner.concatenate_bins(two_bins, prior_bins)", "snp.incumbent_updates")
    p.line(snp.rec_generate_sets, "in_ex_tree = InExclusionBinTree(", "snp.trees")
    rnp = mod("prtpy.partitioning.recursive_number_partitioning_sy")
    p.line(rnp.rec_generate_sets, "best_partition_so_far = binner.concatenate_bins(prior_bins, new_bins)", "rnp.incumbent_updates_odd")
    p.line(rnp.rec_generate_sets, "best_partition_so_far = binner.concatenate_bins(new_bin1, new_bin2)", "rnp.incumbent_updates_even")
    cb = mod("prtpy.partitioning.cbldm")
    p.line(cb.CBLDM_algo.part, "if 2 * max_x - sum_xi >= self.sum_delta:", "cbldm.sum_prune", offset=1)
    p.line(cb.CBLDM_algo.part, "if 2 * max_m - sum_mi > self.len_delta:", "cbldm.card_prune", offset=1)
    p.line(cb.CBLDM_algo.part, "self.best_partition_so_far = potential_partition", "cbldm.incumbent_updates")
    bc = mod("prtpy.packing.bin_completion")
    p.line(bc.bin_completion, "branches.append(BinBranch(new_items, new_bins, cb.bin_index + 1))", "bc.branches_created")
    p.line(bc.bin_completion, "best_solution_so_far = cb.bins", "bc.incumbent_updates")
    p.line(bc.bin_completion, "return bfd_solution", "bc.bfd_was_optimal")
    return p


# =============================================================================== M3 in situ: bins-array invariant at the manager's own operations
class BinsInvariant:
    """
    "Invariant at a hook": while REAL algorithms run, every operation of the contents-keeping manager that creates or mutates a bins-array is followed by a check
    that, in the array it touched, every bin's sum equals the total value of the items recorded in that bin (and sums / lists have the same length).
    Refuting observations are recorded (the monitored code continues); the caller turns them into violations of C06/C16's statement.
    """
    OPS = ("add_item_to_bin", "combine_bins", "sort_by_ascending_sum", "copy_bins", "concatenate_bins", "remove_bins", "new_bins")

    def __init__(self):
        self.checked = Counter()
        self.broken = []
        self._saved = []

    def _check(self, binner, arr, op):
        try:
            sums, lists = arr
        except Exception:
            return
        self.checked[op] += 1
        if len(sums) != len(lists):
            self._rec(op, "sums and lists have different lengths", sums, lists)
            return
        for i, (s_, b) in enumerate(zip(sums, lists)):
            if float(s_) != float(sum(map(binner.valueof, b))):
                self._rec(op, f"bin {i}: sum {float(s_)} but contents total {float(sum(map(binner.valueof, b)))}", sums, lists)
                return

    def _rec(self, op, what, sums, lists):
        if len(self.broken) < 10:
            self.broken.append({"after_operation": op, "what": what, "sums": [float(x) for x in sums][:12], "lists": [list(map(repr, b)) for b in lists][:12]})

    def install(self):
        prtpy = import_prtpy()
        cls = prtpy.BinnerKeepingContents
        me = self
        for op in self.OPS:
            orig = getattr(cls, op)

            def make(op, orig):
                def wrapper(self, *a, **k):
                    out = orig(self, *a, **k)
                    target = out if op in ("copy_bins", "concatenate_bins", "remove_bins", "new_bins") else (a[0] if a else k.get("bins", k.get("bins1")))
                    if op == "add_item_to_bin":
                        target = out
                    me._check(self, target, op)
                    return out
                wrapper.__name__ = op
                return wrapper
            self._saved.append((cls, op, orig))
            setattr(cls, op, make(op, orig))
        return self

    def uninstall(self):
        for cls, op, orig in reversed(self._saved):
            setattr(cls, op, orig)
        self._saved = []

    def take_broken(self):
        b, self.broken = self.broken, []
        return b
