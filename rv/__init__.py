"""rv — runtime-verification machinery for erelsgl/prtpy (see /verif/DESIGN.md)."""
