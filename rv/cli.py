"""
./check <Cxx> --tier quick|thorough [--seed N] [--replay file]
Shards the property's workload over worker subprocesses, merges what the monitors observed, classifies violations
against known_findings.json, writes evidence/<id>.json, prints VIOLATION / KNOWN-FINDING / INCONCLUSIVE lines.
Exit: 0 held, 1 violation, 2 inconclusive.
"""
import argparse, concurrent.futures, importlib, json, os, shutil, subprocess, sys, tempfile, time, hashlib
from collections import Counter

HERE = os.path.dirname(os.path.dirname(os.path.abspath(__file__)))
REPO = os.environ.get("VERIF_REPO", "/repo")
PY = os.environ.get("VERIF_PY", "/venv/bin/python")
JOBS = int(os.environ.get("VERIF_JOBS", "16"))


def ensure_deps():
    deps = os.path.join(HERE, ".deps")
    if os.path.isdir(os.path.join(deps, "icontract")):
        return
    subprocess.run([os.path.join(HERE, "setup.sh")], cwd=HERE, check=False,
                   stdout=subprocess.DEVNULL, stderr=subprocess.DEVNULL)


def worker_env(spec=None):
    env = dict(os.environ)
    env["PYTHONPATH"] = os.pathsep.join([REPO, HERE, os.path.join(HERE, ".deps")])
    # string hashing differs from shard to shard (deterministically: derived from the shard's seed), so that behaviour depending on the iteration order of a set / dict of
    # names is not always observed under one and the same order; the value is stored in every violation record and restored on replay
    env["PYTHONHASHSEED"] = str(int((spec or {}).get("hashseed", 0)) % 4294967295)
    env["PRTPY_VERIF"] = "1"
    env["VERIF_REPO"] = REPO
    env["PYTHONDONTWRITEBYTECODE"] = "1"
    env.setdefault("OMP_NUM_THREADS", "1")
    env.setdefault("OPENBLAS_NUM_THREADS", "1")
    return env


def run_shard(prop, spec, tmpdir, idx):
    sp = os.path.join(tmpdir, f"spec{idx}.json")
    op = os.path.join(tmpdir, f"out{idx}.json")
    with open(sp, "w") as f:
        json.dump(spec, f)
    wd = float(spec.get("watchdog_s", 600))
    try:
        p = subprocess.run([PY, "-B", "-m", "rv.worker", prop, sp, op], cwd=HERE, env=worker_env(spec),
                           timeout=wd, stdout=subprocess.PIPE, stderr=subprocess.PIPE)
    except subprocess.TimeoutExpired as e:
        return {"status": "shard_timeout", "spec": spec, "error": (e.stderr or b"").decode(errors="replace")[-2000:]}
    if not os.path.exists(op):
        return {"status": "worker_died", "spec": spec, "error": p.stderr.decode(errors="replace")[-3000:], "rc": p.returncode}
    with open(op) as f:
        return json.load(f)


def merge(outs):
    M = {"counters": Counter(), "distinct": set(), "samples": {}, "violations": [], "viol_classes": Counter(),
         "inconclusive": Counter(), "inconclusive_samples": [], "reach": Counter(), "warnings_seen": Counter(),
         "bad_shards": [], "wall_worker_s": 0.0}
    for o in outs:
        if o.get("status") != "ok":
            M["bad_shards"].append({"status": o.get("status"), "error": o.get("error"), "spec": o.get("spec")})
            if o.get("status") in ("shard_timeout", "worker_died"):
                continue
        M["counters"].update(o.get("counters", {}))
        M["distinct"].update(o.get("distinct", []))
        for cls, lst in o.get("samples", {}).items():
            cur = M["samples"].setdefault(cls, [])
            for s in lst:
                if len(cur) < 2:
                    cur.append(s)
        M["violations"].extend(o.get("violations", []))
        M["viol_classes"].update(o.get("viol_classes", {}))
        M["inconclusive"].update(o.get("inconclusive", {}))
        M["inconclusive_samples"].extend(o.get("inconclusive_samples", [])[:2])
        for rk, rv_ in o.get("reach", {}).items():
            if rk.endswith("@max"):
                M["reach"][rk] = max(M["reach"].get(rk, 0), rv_)
            else:
                M["reach"][rk] += rv_
        M["warnings_seen"].update(o.get("warnings_seen", {}))
        M["wall_worker_s"] += o.get("wall_s", 0.0)
    return M


def write_replay(prop, rec):
    d = os.path.join(HERE, "replays", prop)
    os.makedirs(d, exist_ok=True)
    key = hashlib.blake2b(json.dumps(rec["case"], sort_keys=True).encode(), digest_size=6).hexdigest()
    safe = lambda t: ''.join(c if c.isalnum() or c in '._-' else '_' for c in str(t))[:60]
    path = os.path.join(d, f"{safe(rec['alg'])}-{safe(rec['kind'])}-{key}.json")
    with open(path, "w") as f:
        json.dump(rec, f, indent=1, sort_keys=True)
    return os.path.relpath(path, HERE)


def main(argv=None):
    ap = argparse.ArgumentParser()
    ap.add_argument("prop")
    ap.add_argument("--tier", default=os.environ.get("VERIF_TIER", "quick"), choices=["quick", "thorough"])
    ap.add_argument("--seed", type=int, default=int(os.environ.get("VERIF_SEED", "0")))
    ap.add_argument("--replay")
    ap.add_argument("--no-evidence", action="store_true")
    a = ap.parse_args(argv)
    prop = a.prop.upper()
    t0 = time.time()
    ensure_deps()
    sys.path.insert(0, HERE)
    from rv import kf
    m = importlib.import_module(f"rv.props.{prop.lower()}")
    findings = kf.open_findings(prop)

    if a.replay:
        with open(a.replay) as f:
            rec = json.load(f)
        case = rec.get("case", rec)
        specs = [{"seed": a.seed, "replay": case, "watchdog_s": 900, "tier": a.tier, "debug_logging": bool(rec.get("debug_logging")), "hashseed": int(rec.get("hashseed", 0))}]
    else:
        specs = m.plan(a.tier, a.seed)
        for sp_ in specs:
            sp_.setdefault("hashseed", (int(sp_.get("seed", 0)) * 2654435761 + 12345) % 4294967295 if int(sp_.get("shard", 0)) % 2 else 0)     # every other shard: a hash seed of its own
        for s in specs:
            s.setdefault("tier", a.tier)
        # re-demonstrate every open known finding on its fixed example first (DESIGN §3)
        for k in findings:
            ex = (k.get("examples") or {}).get(prop)
            if ex is not None:
                specs.append({"seed": a.seed, "replay": ex, "kf_example": k["id"], "watchdog_s": 600, "tier": a.tier})

    tmpdir = tempfile.mkdtemp(prefix=f"rv-{prop}-", dir=os.environ.get("VERIF_TMP"))
    try:
        with concurrent.futures.ThreadPoolExecutor(JOBS) as ex:
            outs = list(ex.map(lambda t: run_shard(prop, t[1], tmpdir, t[0]), enumerate(specs)))
    finally:
        shutil.rmtree(tmpdir, ignore_errors=True)

    # known-finding examples are judged separately
    kf_example_outs = [(s["kf_example"], o) for s, o in zip(specs, outs) if "kf_example" in s]
    main_outs = [o for s, o in zip(specs, outs) if "kf_example" not in s]
    M = merge(main_outs)

    reproduced = {}
    for fid, o in kf_example_outs:
        hit = any(v.get("known_finding") == fid for v in o.get("violations", []))
        reproduced[fid] = hit
    active = {k["id"] for k in findings if reproduced.get(k["id"], True)}

    # every violation was classified in the worker (class key includes the finding id, so the per-class cap on
    # recorded witnesses cannot hide an unexplained violation)
    new_viol, kf_hits = [], Counter()
    for v in M["violations"]:
        if v.get("known_finding") not in active:
            new_viol.append(v)
    for key, n in M["viol_classes"].items():
        fid = key.split("|")[2]
        if fid and fid in active:
            kf_hits[fid] += n

    lines = []
    for k in findings:
        fid = k["id"]
        if fid in reproduced and not reproduced[fid]:
            lines.append(f"NOTE: known finding {fid} (property={prop}) no longer reproduces on its example; nothing is suppressed for it in this run")
        else:
            lines.append(f"KNOWN-FINDING: property={prop} {fid}: {k['what_fails']} (example "
                         f"{'reproduced' if fid in reproduced else 'not replayed by this check'}; {kf_hits.get(fid, 0)} further hits in this run)")

    status = "held"
    viol_lines = []
    if new_viol:
        status = "violated"
        seen = set()
        for v in new_viol:
            c = (v["alg"], v["kind"])
            if c in seen or len(seen) >= 10:
                continue
            seen.add(c)
            path = write_replay(prop, v)
            viol_lines.append(f"VIOLATION property={prop} replay={path}")
            lines.append(f"  witness: alg={v['alg']} kind={v['kind']} case={json.dumps(v['case'])[:300]} witness={json.dumps(v['witness'])[:400]}")
    inconc_reason = None
    if status == "held" and not a.replay:
        ev = M["counters"].get("evaluations", 0)
        floors = getattr(m, "FLOORS", {})
        if M["bad_shards"] and any(b["status"] == "harness_error" for b in M["bad_shards"]):
            inconc_reason = "harness_error: " + (M["bad_shards"][0].get("error") or "")[-600:]
        elif len([b for b in M["bad_shards"] if b["status"] in ("shard_timeout", "worker_died")]) > 0.2 * max(1, len(main_outs)):
            inconc_reason = "more than 20% of shards timed out or died: " + (M["bad_shards"][0].get("error") or "")[-400:]
        elif ev == 0:
            inconc_reason = "no case was evaluated"
        elif sum(M["inconclusive"].values()) > 0.2 * (ev + sum(M["inconclusive"].values())):
            inconc_reason = f"more than 20% of cases inconclusive: {dict(M['inconclusive'])}"
        else:
            for name, floor in floors.get(a.tier, floors.get("any", {})).items() if floors else []:
                got = M["counters"].get(name, 0) + M["reach"].get(name, 0) if name != "distinct_nontrivial" else len(M["distinct"])
                if got < floor:
                    inconc_reason = f"monitor floor not reached: {name}={got} < {floor}"
                    break
        if inconc_reason:
            status = "inconclusive"

    wall = time.time() - t0
    if not a.replay and not a.no_evidence:
        samples = []
        for cls, lst in sorted(M["samples"].items()):
            for s in lst[:2]:
                samples.append({"class": cls, "case": s})
        ev = {
            "property_id": prop, "tier": a.tier, "seed": a.seed, "level": m.LEVEL,
            "coverage": {
                "evaluations": int(M["counters"].get("evaluations", 0)),
                "distinct_nontrivial": len(M["distinct"]),
                "rule": m.RULE,
                "samples": samples[:40] or [{"note": "no sample recorded"}],
                "exhaustive": bool(getattr(m, "EXHAUSTIVE", False)),
                "per_class": {k[4:]: v for k, v in sorted(M["counters"].items()) if k.startswith("cls:")},
                "counters": {k: v for k, v in sorted(M["counters"].items()) if not k.startswith("cls:")},
                "mechanism_reach": dict(sorted(M["reach"].items())),
                "warnings_seen": dict(M["warnings_seen"]),
                "inconclusive": dict(M["inconclusive"]),
                "inconclusive_samples": M["inconclusive_samples"][:5],
                "known_findings_hit": dict(kf_hits),
                "known_finding_examples_reproduced": reproduced,
                "violation_classes": dict(M["viol_classes"]),
                "bad_shards": [{"status": b["status"], "error": (b.get("error") or "")[-300:]} for b in M["bad_shards"]][:5],
                "shards": len(main_outs),
                "worker_cpu_s": round(M["wall_worker_s"], 1),
                "verdict": status,
                "tree": REPO,
            },
            "assumptions": getattr(m, "ASSUMPTIONS", []),
            "wall_s": round(wall, 2),
            "violations": sum(n for key, n in M["viol_classes"].items() if key.split("|")[2] not in active),
        }
        os.makedirs(os.path.join(HERE, "evidence"), exist_ok=True)
        with open(os.path.join(HERE, "evidence", f"{prop}.json"), "w") as f:
            json.dump(ev, f, indent=1, sort_keys=True)

    c = M["counters"]
    print(f"[{prop}] tier={a.tier} seed={a.seed} tree={REPO} verdict={status} evaluations={c.get('evaluations', 0)} "
          f"distinct_nontrivial={len(M['distinct'])} held={c.get('held', 0)} violated={c.get('violated', 0)} "
          f"inconclusive={sum(M['inconclusive'].values())} shards={len(main_outs)} wall={wall:.1f}s")
    if a.replay:
        print(json.dumps({"violations": M["violations"], "counters": dict(M["counters"]), "inconclusive": dict(M["inconclusive"]),
                          "bad_shards": M["bad_shards"]}, indent=1)[:6000])
    if M["viol_classes"]:
        print("  violation classes (alg|kind|known-finding): " + json.dumps(dict(M["viol_classes"])))
    for l in lines:
        print(l)
    for l in viol_lines:
        print(l)
    if status == "inconclusive":
        print(f"INCONCLUSIVE property={prop} reason={inconc_reason}")
        return 2
    return 1 if status == "violated" else 0


if __name__ == "__main__":
    sys.exit(main())
