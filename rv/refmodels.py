"""
O8 — executable reference models of the nine textbook heuristics (DESIGN.md §4.2, C14).
Direct transcriptions of the documented rules on VALUES only, exact int/Fraction arithmetic.
Nothing here imports prtpy.
"""


def lpt(vals, k):
    """Longest-processing-time-first: non-increasing order, each to a least-loaded bin."""
    bins = [[] for _ in range(k)]
    sums = [0] * k
    for v in sorted(vals, reverse=True):
        i = min(range(k), key=lambda j: sums[j])
        sums[i] += v
        bins[i].append(v)
    return bins


def lpt_with_heuristic3(vals, k):
    """
    LPT with Korf's heuristic 3 (documented in complete_greedy.py, min-max objective only): as soon as the remaining items plus the
    smallest sum do not exceed the largest sum, all remaining items go to the bin with the smallest sum.
    Its largest sum always equals plain LPT's largest sum.
    """
    items = sorted(vals, reverse=True)
    sums = [0] * k
    for i, v in enumerate(items):
        lo = min(range(k), key=lambda j: sums[j])
        if sum(items[i:]) + sums[lo] <= max(sums):
            sums[lo] += sum(items[i:])
            break
        sums[lo] += v
    return sums


def roundrobin(vals, k):
    """Cyclic dealing of the items sorted in non-increasing order."""
    bins = [[] for _ in range(k)]
    for i, v in enumerate(sorted(vals, reverse=True)):
        bins[i % k].append(v)
    return bins


def first_fit(vals, C):
    bins, sums = [], []
    for v in vals:
        for i in range(len(bins)):
            if sums[i] + v <= C:
                bins[i].append(v)
                sums[i] += v
                break
        else:
            bins.append([v])
            sums.append(v)
    return bins


def first_fit_decreasing(vals, C):
    return first_fit(sorted(vals, reverse=True), C)


def best_fit(vals, C):
    """Fullest bin that still fits (first such bin on ties)."""
    bins, sums = [], []
    for v in vals:
        best = None
        for i in range(len(bins)):
            if sums[i] + v <= C and (best is None or sums[i] > sums[best]):
                best = i
        if best is None:
            bins.append([v])
            sums.append(v)
        else:
            bins[best].append(v)
            sums[best] += v
    return bins


def best_fit_decreasing(vals, C):
    return best_fit(sorted(vals, reverse=True), C)


def nfd_cover(vals, C):
    """Next-fit-decreasing cover: fill the open bin until it reaches C, then open the next."""
    out, cur = [], []
    for v in sorted(vals, reverse=True):
        cur.append(v)
        if sum(cur) >= C:
            out.append(cur)
            cur = []
    return out


def twothirds_cover(vals, C):
    """Csirik et al. 'simple' 2/3 algorithm: one largest item, then smallest items until covered."""
    it = sorted(vals, reverse=True)
    out, cur = [], []
    while it:
        cur.append(it.pop(0))
        while it and sum(cur) < C:
            cur.append(it.pop())
        if sum(cur) >= C:
            out.append(cur)
            cur = []
    return out


def threequarters_cover(vals, C):
    """
    Csirik et al. 'improved simple' 3/4 algorithm as documented in cflz_covering.py:
    X = {v >= C/2}, Y = {C/3 <= v < C/2}, Z = {v < C/3}; while Z and (X or Y) are non-empty start a bin
    with the largest X item or the two largest Y items, whichever total is larger (X on ties), fill with
    smallest Z items; when Z is exhausted continue next-fit-decreasing over X then Y (re-using the open bin);
    when X and Y are exhausted continue next-fit-decreasing over Z.
    """
    it = sorted(vals, reverse=True)
    X = [v for v in it if 2 * v >= C]
    Y = [v for v in it if 3 * v >= C and 2 * v < C]
    Z = [v for v in it if 3 * v < C]
    out = []
    cur = []

    def nfd(seq):
        nonlocal cur
        for v in seq:
            cur.append(v)
            if sum(cur) >= C:
                out.append(cur)
                cur = []

    while True:
        if not Z:
            nfd(X)
            nfd(Y)
            break
        if not X and not Y:
            nfd(Z)
            break
        bx, by = X[:1], Y[:2]
        if sum(bx) >= sum(by):
            cur += bx
            del X[:1]
        else:
            cur += by
            del Y[:len(by)]
        while Z and sum(cur) < C:
            cur.append(Z.pop())
        if sum(cur) >= C:
            out.append(cur)
            cur = []
    return out


def kk_sums(vals, k):
    """Karmarkar-Karp k-way differencing on sums only (used as an auxiliary value, not as a C14 reference)."""
    import heapq
    from itertools import count
    c = count()
    heap = []
    for v in sorted(vals, reverse=True):
        t = [0] * (k - 1) + [v]
        heapq.heappush(heap, (-(t[-1] - t[0]), next(c), t))
    while len(heap) > 1:
        _, _, a = heapq.heappop(heap)
        _, _, b = heapq.heappop(heap)
        t = sorted(a[k - 1 - i] + b[i] for i in range(k))
        heapq.heappush(heap, (-(t[-1] - t[0]), next(c), t))
    return heap[0][2]
