"""
Known-findings classifier (DESIGN.md §3, §6). known_findings.json is the authority and is never written at run time.
An open finding names a predicate below; a violation record is "known" only if that predicate accepts its witness.
`fixed` entries suppress nothing.
"""
import json, os

HERE = os.path.dirname(os.path.dirname(os.path.abspath(__file__)))
PATH = os.path.join(HERE, "known_findings.json")


def load():
    with open(PATH) as f:
        return json.load(f)


def open_findings(prop):
    return [k for k in load().get("open", []) if prop in k["properties"]]


# ---- named predicates over a violation record {kind, alg, case, witness}
def rnp_between_opt_and_kk(rec):
    w = rec["witness"]
    return (rec["alg"] == "rnp" and rec["kind"] == "suboptimal" and w.get("numbins", 0) >= 4
            and w.get("valid_partition") is True
            and w.get("opt") is not None and w.get("kk_value") is not None
            and w["opt"] < w["got"] <= w["kk_value"])


def rnp_k6_crash(rec):
    w = rec["witness"]
    return (rec["alg"] == "rnp" and rec["kind"] == "exception" and w.get("numbins", 0) >= 6
            and w.get("exc_type") in ("IndexError", "TypeError", "ValueError")
            and "rec_generate_sets" in w.get("tb_funcs", []))


def bc_named_items(rec):
    w = rec["witness"]
    return rec["alg"] == "bc" and w.get("names_differ_from_values") is True and \
        rec["kind"] in ("exception", "sums_differ", "invalid_named_result")


def ilp_weights_restricted_model(rec):
    w = rec["witness"]
    return (rec["alg"] == "ilp" and rec["kind"] == "weighted_not_optimal" and w.get("weights_uniform") is False
            and w.get("matches_restricted_model") is True)


PREDICATES = {f.__name__: f for f in (rnp_between_opt_and_kk, rnp_k6_crash, bc_named_items, ilp_weights_restricted_model)}


def classify(prop, rec, findings=None):
    """Return the id of the open finding that explains this violation record, or None."""
    for k in (findings if findings is not None else open_findings(prop)):
        pred = PREDICATES.get(k["classifier"])
        try:
            if pred is not None and pred(rec):
                return k["id"]
        except Exception:
            pass
    return None
