"""
C19 — unsatisfiable or malformed requests are refused with an error, never answered (DESIGN.md §5 C19).
Deciding monitor: M1 (return event vs exception event) on prtpy.pack / prtpy.partition / BinnerKeepingSums.numitems.
"""
import time, random
from rv.props import common as C
from rv import gen
from rv.harness import monitored_call, present

LEVEL = "exploration"
RULE = ("(a) random valid packing inputs with 1-3 oversize items inserted at every position class (first, middle, last, random), binsize 1..1000 (ints and dyadic), 7 presentations x 10 output "
        "types x 5 packers: the call must raise ValueError; (b) cbldm called with exactly one invalid argument (numbins in {0,1,3,4,7}, a negative item at any position, time_limit in {0,-1,-0.5}, "
        "partition_difference in {0,-1,-5,0.5,1.5,2.0,3.0,1e20, numpy 0 / -3 / 2.5 / 2.0}; time_limit also 0.0, -1e-9, -inf, numpy -2.0 / 0) on otherwise valid inputs: must raise ValueError; (c) BinnerKeepingSums.numitems must raise; "
        "non-trivial = oversize item not in first position and >= 2 valid items (a), any (b); distinct on the full case")
ASSUMPTIONS = ["any return value (even a feasible-looking one) for such a request is a violation; so is an exception type other than ValueError"]
FLOORS = {"quick": {"distinct_nontrivial": 5000, "cbldm_cases": 500}, "thorough": {"distinct_nontrivial": 25000, "cbldm_cases": 2500}}
OTS = ("Sums", "LargestSum", "SmallestSum", "ExtremeSums", "SortedSums", "Difference", "BinCount", "Partition", "PartitionAndSumsTuple", "PartitionAndSums")


def plan(tier, seed):
    n = 16 if tier == "quick" else 64
    b = 15 if tier == "quick" else 50
    return [{"seed": seed * 1000 + i, "shard": i, "budget_s": b, "max_cases": 10 ** 7, "watchdog_s": b * 5 + 120} for i in range(n)]


def decode_arg(v):
    """JSON-able encodings of exotic argument values: 'np:<x>' = numpy scalar (int64 if integral text, float64 otherwise), '-inf'."""
    import numpy as np
    if isinstance(v, str):
        if v == "-inf":
            return float("-inf")
        if v.startswith("np:"):
            t = v[3:]
            return np.float64(t) if ("." in t or "e" in t) else np.int64(t)
    return v


def judge(case, ctx):
    ctx.evaluated()
    A = C.algos()
    if case["kind"] == "pack_oversize":
        alg = case["alg"]
        r, names, vmap = C.run_pack_case(dict(case, kind="pack"), case["ot"], ctx=ctx)
        if r.timeout:
            ctx.inconc("timeout", case)
            return
        if r.ok or r.raw_none:
            ctx.violation("answered_instead_of_refused", alg, case, {"returned": repr(r.value)[:200], "binsize": case["C"]})
            return
        if not isinstance(r.exc, ValueError):
            ctx.violation("wrong_exception_type", alg, case, C.exc_witness(r, case))
            return
        pos = case["oversize_positions"]
        ctx.held(key=(alg, case["C"], tuple(case["values"]), case["pres"], case["ot"]), nontrivial=min(pos) > 0 and len(case["values"]) - len(pos) >= 2,
                 cls=f"pack/{alg}", sample={"case": case, "raised": r.tb[:120]})
        return
    if case["kind"] == "cbldm_invalid":
        ctx.counters["cbldm_cases"] += 1
        prng = random.Random(case["pres_seed"])
        items, valueof, names, vmap = present(case["values"], case["pres"], prng)
        kw = {k_: decode_arg(v_) for k_, v_ in case["kwargs"].items()}
        r = monitored_call(A.prtpy.partition, A.partitioners["cbldm"], case["k"], items, valueof, A.outputtypes[case["ot"]], ctx=ctx, **kw)
        if r.timeout:
            ctx.inconc("timeout", case)
            return
        if r.ok or r.raw_none:
            ctx.violation("answered_instead_of_refused", "cbldm", case, {"returned": repr(r.value)[:200], "invalid": case["invalid"]})
            return
        if not isinstance(r.exc, ValueError):
            ctx.violation("wrong_exception_type", "cbldm", case, dict(C.exc_witness(r, case), invalid=case["invalid"]))
            return
        ctx.held(key=("cbldm", case["k"], tuple(case["values"]), repr(sorted(kw.items())), case["pres"]), nontrivial=True, cls="cbldm/" + case["invalid"],
                 sample={"case": case, "raised": r.tb[:120]})
        return
    if case["kind"] == "numitems":
        b = A.prtpy.BinnerKeepingSums()
        bins = b.new_bins(case["k"])
        for i, v in enumerate(case["values"]):
            b.add_item_to_bin(bins, v, i % case["k"])
        try:
            out = b.numitems(bins, case["index"])
        except Exception as e:
            ctx.held(key=("numitems", case["k"], case["index"], tuple(case["values"])), nontrivial=True, cls="numitems", sample={"case": case, "raised": type(e).__name__})
            return
        ctx.violation("sums_only_manager_invented_an_item_count", "BinnerKeepingSums", case, {"returned": repr(out)})


def draw(rng, i):
    if i % 4 == 3:
        n = rng.randint(1, 9) if rng.random() < 0.94 else 0       # an empty item list with an invalid argument is still an invalid request
        vals = [rng.randint(0, rng.choice([5, 30, 300])) for _ in range(n)]
        which = rng.choice(["numbins", "negative_item", "time_limit", "partition_difference"] if n else ["numbins", "time_limit", "partition_difference"])
        case = {"kind": "cbldm_invalid", "alg": "cbldm", "k": 2, "values": vals, "kwargs": {}, "invalid": which,
                "pres": rng.choice(["list", "dict_str", "names_int", "array", "dict_sub"]), "pres_seed": rng.randrange(1 << 30), "ot": rng.choice(OTS)}
        if rng.random() < 0.5:
            case["kwargs"]["time_limit"] = rng.choice([0.5, 1, 10])
        if rng.random() < 0.5:
            case["kwargs"]["partition_difference"] = rng.choice([1, 2, 5])
        if which == "numbins":
            case["k"] = rng.choice([0, 1, 3, 4, 7])
        elif which == "negative_item":
            case["values"][rng.randrange(n)] = -rng.randint(1, 20)
        elif which == "time_limit":
            case["kwargs"]["time_limit"] = rng.choice([0, -1, -0.5, 0.0, -1e-9, "-inf", "np:-2.0", "np:0"])
        else:
            case["kwargs"]["partition_difference"] = rng.choice([0, -1, -5, 0.5, 1.5, 2.0, 3.0, "np:0", "np:-3", "np:2.5", "np:2.0", 10.0 ** 20])
        return case
    if i % 97 == 5:
        k = rng.randint(1, 5)
        return {"kind": "numitems", "alg": "numitems", "k": k, "index": rng.choice([rng.randrange(k), 0, -1, k - 1, k, k + 3]), "values": [rng.randint(0, 9) for _ in range(rng.randint(0, 6))]}
    alg = C.PACKERS[i % 5]
    if i % 50 == 7:
        # bin size 0: every positive item is oversize
        n = rng.randint(1, 8)
        vals = [rng.choice([0, 0, rng.randint(1, 9)]) for _ in range(n)]
        if not any(vals):
            vals[rng.randrange(n)] = rng.randint(1, 9)
        return {"kind": "pack_oversize", "alg": alg, "C": 0, "values": vals, "oversize_positions": [j for j, v in enumerate(vals) if v > 0], "ot": rng.choice(OTS),
                "cls": "oversize/binsize0", "pres": rng.choice(C.PRESENTATIONS), "pres_seed": rng.randrange(1 << 30)}
    base = C.draw_pack_case(rng, alg=alg, nmax=rng.choice([3, 8, 12, 40, 150, 400]) if alg != "bc" else rng.choice([3, 8, 12]))
    vals = list(base["values"])
    Cs = base["C"]
    m = rng.choice([1, 1, 1, 2, 3])
    over = [Cs + rng.choice([1, 1, 2, Cs, 1000]) if not base.get("dyadic") else Cs + rng.choice([1 / base["dyadic"], 1, Cs]) for _ in range(m)]
    where = rng.choice(["first", "last", "middle", "random"])
    pos = []
    for o in over:
        p = {"first": 0, "last": len(vals), "middle": len(vals) // 2, "random": rng.randint(0, len(vals))}[where if not pos else "random"]
        vals.insert(p, o)
        pos = [q + (1 if q >= p else 0) for q in pos] + [p]
    if rng.random() < 0.12 and not base.get("dyadic") and all(isinstance(v, int) for v in vals) and sum(vals) < 2 ** 31:
        base["pres"] = "array_u"          # unsigned numpy array: `binsize - value` style tests wrap around instead of going negative
    base.update(kind="pack_oversize", values=vals, oversize_positions=sorted(pos), ot=rng.choice(OTS), cls="oversize/" + where)
    return base


def run_shard(spec, rng, ctx):
    end = C.budget(spec)
    i = 0
    while i < spec["max_cases"] and C.now() < end:
        judge(draw(rng, i), ctx)
        i += 1


def replay(case, ctx):
    judge(case, ctx)
