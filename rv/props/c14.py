"""
C14 — simple heuristics compute exactly what their textbook definitions prescribe (DESIGN.md §5 C14).
Deciding monitor: M1; oracle O8 = executable reference models in rv/refmodels.py (values only, exact arithmetic).
"""
import time
from collections import Counter
from fractions import Fraction
from rv.props import common as C
from rv import refmodels as R, gen, oracles as O

LEVEL = "exploration"
RULE = ("bounded-exhaustive: every multiset of <= 5 items over 0..4 x 1..4 bins (greedy, round-robin), every SEQUENCE of <= 4-5 items over 0..C (first/best-fit) and multiset of <= 6 (decreasing variants) for C in {4,6}, every multiset of <= 6 items over 1..7 with binsize 6 and <= 4 items over 1..13 with binsize 12 (three covers); completion in grid_exhaustive_complete_shards; then greedy, round-robin, first-fit, FFD, best-fit, BFD, decreasing / two-thirds / three-quarters covers on tie-heavy, threshold (binsize divisible by 6; values at "
        "binsize/2, binsize/3, +-1), exact-fill, all-equal and random inputs, n <= 400, plus 1% cases with 300-1500 items (hundreds of bins) and greedy / round-robin with up to 300 bins, list presentation; sums compared as multisets, and bins as multisets of values where the "
        "rule leaves no freedom; non-trivial = >= 2 bins and (a repeated value or a threshold/exact-fill item); distinct on (algorithm, size, value sequence)")
ASSUMPTIONS = ["the three-class reference follows the docstring/comments of cflz_covering.py and the cited paper's class definitions"]
FLOORS = {"quick": {"distinct_nontrivial": 20000}, "thorough": {"distinct_nontrivial": 100000}}
NO_FREEDOM = {"roundrobin", "ff", "ffd", "decreasing", "twothirds", "threequarters"}
REF = {"greedy": R.lpt, "roundrobin": R.roundrobin, "ff": R.first_fit, "ffd": R.first_fit_decreasing, "bf": R.best_fit, "bfd": R.best_fit_decreasing,
       "decreasing": R.nfd_cover, "twothirds": R.twothirds_cover, "threequarters": R.threequarters_cover}
ALGS = tuple(REF)


def plan(tier, seed):
    n = 16 if tier == "quick" else 64
    b = 25 if tier == "quick" else 70
    return [{"seed": seed * 1000 + i, "shard": i, "nshards": n, "budget_s": b, "max_cases": 10 ** 7, "watchdog_s": b * 5 + 120} for i in range(n)]


def judge(case, ctx):
    alg = case["alg"]
    ctx.evaluated()
    if case["kind"] == "partition":
        r, names, vmap = C.run_partition_case(case, "PartitionAndSumsTuple", ctx=ctx, pres="list")
        size = case["k"]
    else:
        r, names, vmap = C.run_pack_case(case, "PartitionAndSumsTuple", ctx=ctx, pres="list")
        size = Fraction(case["C"])
    if r.timeout:
        ctx.inconc("timeout", case)
        return
    if not r.ok:
        ctx.violation("exception", alg, case, C.exc_witness(r, case) if r.exc is not None else {"none": True})
        return
    vals = [Fraction(v) for v in case["values"]]
    ref = REF[alg](vals, size)
    sums, lists = r.value
    got_bins = [[Fraction(x) for x in b] for b in lists]
    got_ms = Counter(sum(b) for b in got_bins)
    ref_ms = Counter(sum(b) for b in ref)
    w = {"size": float(size), "got_bins": [[float(x) for x in b] for b in got_bins][:12], "reference_bins": [[float(x) for x in b] for b in ref][:12]}
    if got_ms != ref_ms:
        ctx.violation("sums_differ_from_reference", alg, case, w)
        return
    if alg in NO_FREEDOM:
        cg = Counter(tuple(sorted(b)) for b in got_bins)
        cr = Counter(tuple(sorted(b)) for b in ref)
        if cg != cr:
            ctx.violation("bins_differ_from_reference", alg, case, w)
            return
    nb = len(got_bins)
    special = len(set(vals)) < len(vals)
    if case["kind"] != "partition":
        special = special or any(v * 2 == size or v * 3 == size or v == size for v in vals)
    ctx.held(key=(alg, float(size), tuple(map(float, vals))), nontrivial=nb >= 2 and special, cls=f"{alg}/{case['cls']}",
             sample={"case": case, "sums": sorted(map(float, got_ms.elements()))[:10]})
    ctx.counters["alg:" + alg] += 1


def draw(rng, i):
    alg = ALGS[i % len(ALGS)]
    nmax = rng.choice([6, 12, 30, 60, 150, 400])
    if alg in ("greedy", "roundrobin"):
        cls = rng.choice(["ties", "equal", "small", "zeros", "perfect", "powers", "big", "huge"])
        k = rng.choice([1, 2, 3, 3, 4, 5, 7, 12, 25, 33, 40, 65, 129, 257, 300])
        if k >= 33:
            nmax = rng.choice([k + 5, 2 * k, 3 * k + 7])          # more items than bins, beyond typical internal thresholds (32, 64, 128, 256)
        n = rng.randint(1, nmax)
        return {"kind": "partition", "alg": alg, "k": k, "values": gen.part_values(rng, cls, n, k), "cls": cls, "pres": "list", "pres_seed": 0}
    if alg in ("ff", "ffd", "bf", "bfd") and rng.random() < 0.01:
        Cs, v = gen.pack_instance(rng, "manybins")
        return {"kind": "pack", "alg": alg, "C": Cs, "values": v, "cls": "manybins", "order": "random", "pres": "list", "pres_seed": 0}
    if alg in ("ff", "ffd", "bf", "bfd"):
        return C.draw_pack_case(rng, alg=alg, cls=rng.choice(["threshold", "threshold", "repeat", "equal", "random", "hardpack", "planted", "zeros", "widerange"]), pres="list", nmax=nmax)
    return C.draw_cover_case(rng, alg=alg, cls=rng.choice(["threshold", "threshold", "threshold", "equal", "random", "planted", "worst", "toosmall", "widerange"]), pres="list", nmax=nmax)


def exhaustive_cases(spec):
    """Bounded-exhaustive small scope (deterministic, sharded): every multiset (sequence for the online fits) of few small items."""
    import itertools
    big = spec.get("tier") == "thorough"
    for k in (1, 2, 3, 4):
        for ms in C.multisets(range(0, 5), 6 if big else 5):
            for alg in ("greedy", "roundrobin"):
                yield {"kind": "partition", "alg": alg, "k": k, "values": list(ms), "cls": "grid_exhaustive", "pres": "list", "pres_seed": 0}
    for Cs in (4, 6):
        for n in range(1, 6 if big else 5):
            for seq in itertools.product(range(0, Cs + 1), repeat=n):
                if Cs == 6 and n == 5 and not big:
                    continue
                for alg in ("ff", "bf"):
                    yield {"kind": "pack", "alg": alg, "C": Cs, "values": list(seq), "cls": "grid_exhaustive", "pres": "list", "pres_seed": 0}
        for ms in C.multisets(range(0, Cs + 1), 6):
            for alg in ("ffd", "bfd"):
                yield {"kind": "pack", "alg": alg, "C": Cs, "values": list(ms), "cls": "grid_exhaustive", "pres": "list", "pres_seed": 0}
    for Cs in (6, 12):
        for ms in C.multisets(range(1, Cs + 2), 6 if Cs == 6 else (5 if big else 4)):
            for alg in ("decreasing", "twothirds", "threequarters"):
                yield {"kind": "cover", "alg": alg, "C": Cs, "values": list(ms), "cls": "grid_exhaustive", "pres": "list", "pres_seed": 0}


def run_shard(spec, rng, ctx):
    end = C.budget(spec)
    grid_end = C.now() + 0.4 * float(spec.get("budget_s", 60))
    complete = True
    for case in C.sharded(exhaustive_cases(spec), spec):
        if C.now() > grid_end:
            complete = False
            break
        judge(case, ctx)
        ctx.counters["grid_exhaustive_cases"] += 1
    ctx.counters["grid_exhaustive_complete_shards"] += int(complete)
    i = 0
    while i < spec["max_cases"] and C.now() < end:
        judge(draw(rng, i), ctx)
        i += 1


def replay(case, ctx):
    judge(case, ctx)
