"""
C03 — bin-packing results are feasible packings of exactly the input items (DESIGN.md §5 C03).
Deciding monitor: M1 on prtpy.pack; oracle: direct recomputation from names and the exact value map.
"""
import time
from fractions import Fraction
from rv.props import common as C
from rv import oracles as O, refmodels as R
from rv.harness import exact

LEVEL = "exploration"
RULE = ("first-fit, FFD, best-fit, BFD, bin-completion on generated classes (random, hardpack, repeat, threshold, zeros, equal, planted; "
        "integers and dyadic fractions for the fit heuristics; every arrival order); each case is packed with PartitionAndSumsTuple, Sums and "
        "BinCount; non-trivial = result has >= 2 bins; distinct on (algorithm, binsize, value sequence); search_needed counts bin-completion "
        "instances where best-fit-decreasing misses the volume bound")
ASSUMPTIONS = ["values 0 <= v <= binsize; ints or exactly representable dyadic fractions", "bin-completion driven with list/array presentations here (named items: C07 / KF-bc-names)"]
FLOORS = {"quick": {"distinct_nontrivial": 5000, "bc_search_needed": 100}, "thorough": {"distinct_nontrivial": 25000, "bc_search_needed": 500}}


def plan(tier, seed):
    n = 16 if tier == "quick" else 64
    b = 35 if tier == "quick" else 90
    return [{"seed": seed * 1000 + i, "shard": i, "budget_s": b, "max_cases": 10 ** 7, "watchdog_s": b * 5 + 120} for i in range(n)]


def judge(case, ctx):
    alg, Cs = case["alg"], Fraction(case["C"])
    ctx.evaluated()
    r, names, vmap = C.run_pack_case(case, "PartitionAndSumsTuple", ctx=ctx)
    if r.timeout:
        ctx.inconc("timeout:" + alg, case)
        return
    if r.exc is not None or r.raw_none:
        ctx.violation("exception" if r.exc is not None else "none_result", alg, case, C.exc_witness(r, case) if r.exc is not None else {})
        return
    sums, lists = r.value
    vals = [[Fraction(C.value_of(x, vmap)) for x in b] for b in lists]
    w = {"binsize": case["C"], "bins": [[str(x) for x in b] for b in lists][:14]}
    for i, b in enumerate(vals):
        if sum(b) > Cs:
            ctx.violation("overfull_bin", alg, case, dict(w, bin=i, total=str(sum(b))))
            return
        if Fraction(float(sums[i])) != sum(b):
            ctx.violation("reported_sum_differs", alg, case, dict(w, bin=i, reported=float(sums[i]), total=str(sum(b))))
            return
    # contents: every input item exactly once; bin-completion may omit zero-valued items only
    from collections import Counter
    flat = Counter(O._key(x) for b in lists for x in b)
    want = Counter(map(O._key, names))
    missing, extra = want - flat, flat - want
    if extra:
        ctx.violation("item_invented_or_duplicated", alg, case, dict(w, extra=[str(k) for k in extra.elements()][:6]))
        return
    if missing:
        value_by_key = {O._key(nm): Fraction(C.value_of(nm, vmap)) for nm in names}
        if alg == "bc" and all(value_by_key[k] == 0 for k in missing):
            ctx.counters["bc_zero_items_omitted"] += 1      # the property lets bin-completion omit zero-valued items (named or not)
        else:
            ctx.violation("item_lost", alg, case, dict(w, missing=[str(k) for k in missing.elements()][:6]))
            return
    if any(len(b) == 0 for b in lists) and len(names) > 0:
        # "no bin of a non-empty input is empty" (bin-completion on all-zero input returns one empty bin: documented omission of zeros)
        if not (alg == "bc" and all(Fraction(v) == 0 for v in case["values"])):
            ctx.violation("empty_bin", alg, case, w)
            return
    # the count is the same through the sums-only outputs
    r2, _, _ = C.run_pack_case(case, "Sums", ctx=ctx)
    r3, _, _ = C.run_pack_case(case, "BinCount", ctx=ctx)
    if not (r2.ok and r3.ok):
        bad = r2 if not r2.ok else r3
        if bad.timeout:
            ctx.inconc("timeout:" + alg, case)
            return
        ctx.violation("exception_sums_only_output", alg, case, C.exc_witness(bad, case))
        return
    if any(Fraction(float(s)) > Cs for s in r2.value):
        ctx.violation("overfull_bin_in_sums_output", alg, case, dict(w, sums=[float(s) for s in r2.value]))
        return
    if not (len(r2.value) == r3.value == len(lists)):
        ctx.violation("bin_count_differs_between_outputs", alg, case, dict(w, partition_bins=len(lists), sums_bins=len(r2.value), bincount=int(r3.value)))
        return
    if alg == "bc":
        pos = [v for v in case["values"] if v > 0]
        if pos and len(R.best_fit_decreasing(pos, case["C"])) != -(-sum(pos) // case["C"]):
            ctx.counters["bc_search_needed"] += 1
    ctx.held(key=(alg, case["C"], tuple(case["values"])), nontrivial=len(lists) >= 2, cls=f"{alg}/{case['cls']}",
             sample={"case": case, "bins": [[str(x) for x in b] for b in lists][:8]})
    ctx.counters["alg:" + alg] += 1


def run_shard(spec, rng, ctx):
    from rv.monitors import standard_probes
    probes = standard_probes().start()
    end = C.budget(spec)
    i = 0
    try:
        while i < spec["max_cases"] and C.now() < end:
            alg = C.PACKERS[i % 5] if i % 3 else "bc"      # bin-completion gets half of the cases (its defects need search)
            cls = None
            if alg == "bc":
                cls = rng.choice(["hardpack", "hardpack", "hardpack", "repeat", "repeat", "repeat_large", "repeat_large", "repeat_large", "threshold", "random", "zeros", "equal", "planted", "widerange"])
            judge(C.draw_pack_case(rng, alg=alg, cls=cls), ctx)
            i += 1
    finally:
        probes.stop()
    ctx.reach.update({k: v for k, v in probes.counts.items() if k.startswith("bc.")})


def replay(case, ctx):
    judge(case, ctx)
