"""
C20 — built-in objectives compute their documented quantity on every sum vector (DESIGN.md §5 C20).
Deciding monitors: direct calls to prtpy.obj.*.value_to_minimize judged by rv's own definitions (rv/oracles.objval), plus the M2 value contract
evaluated in situ on every numeric evaluation that dynamic programming / complete greedy make while solving generated instances.
"""
import itertools, time
from fractions import Fraction as F
import numpy as np
from rv.props import common as C
from rv import oracles as O, gen

LEVEL = "exploration"
RULE = ("bounded-exhaustive: every sum vector of 1..5 bins over 0..G (G = 4 quick, 6 thorough; sharded) x {list, tuple, int64 / float64 / unsigned ndarray} x every permutation class (as given, sorted, reversed) x "
        "5 sum-based objectives (k from 1 to bins+2) + weighted objective; random vectors up to 2^49 with up to 9 bins, and lists/tuples of Python ints around 2^53..2^70 compared exactly; in-place histories (one list / ndarray updated in place between evaluations by the same objective instance); the sorted fast path is compared on truly sorted input; "
        "in situ: the value contract runs on every numeric evaluation made by dp / complete greedy on generated instances; non-trivial = >= 2 distinct sums given unsorted; "
        "distinct on (objective, k/weights, container type, vector, flag)")
ASSUMPTIONS = ["weighted objective with the sorted flag may raise (documented refusal) or return the correct value", "ILP passes solver expressions to value_to_minimize: skipped by the in-situ contract (non-numeric)"]
FLOORS = {"quick": {"distinct_nontrivial": 20000, "insitu_value_evaluations": 20000}, "thorough": {"distinct_nontrivial": 100000, "insitu_value_evaluations": 100000}}
NAMES = ("maxmin", "minmax", "diff", "ksmall", "klarge")


def plan(tier, seed):
    n = 16 if tier == "quick" else 48
    b = 15 if tier == "quick" else 60
    return [{"seed": seed * 1000 + i, "shard": i, "nshards": n, "budget_s": b, "grid_max": 4 if tier == "quick" else 6, "watchdog_s": b * 6 + 200} for i in range(n)]


_OBJ_CACHE = {}
_W_SNAP = {}


def container(vec, kind):
    if kind == "list":
        return list(vec)
    if kind == "tuple":
        return tuple(vec)
    if kind == "ndarray_u":
        return np.array(vec, dtype=np.uint32 if max(vec) < 2 ** 28 else np.uint64)      # unsigned dtype: a natural container for non-negative sums
    if kind == "ndarray_f":
        return np.array(vec, dtype=float)          # what prtpy's own bins-arrays are made of
    return np.array(vec, dtype=np.int64 if all(isinstance(x, int) for x in vec) else float)


def judge(case, ctx):
    """case: {objective, k, weights, vec, kind, flag}"""
    A = C.algos()
    ctx.evaluated()
    name, kp, wts, vec, kind, flag = case["objective"], case.get("k"), case.get("weights"), case["vec"], case["kind"], case["flag"]
    # the same objective INSTANCE serves all calls with the same parameters in this shard (an instance that remembers something between calls would show)
    wkind = case.get("weights_kind", "list")
    okey = (name, kp, tuple(wts or ()), wkind)
    objective = _OBJ_CACHE.get(okey)
    if objective is None:
        wobj = wts
        if wts is not None and wkind != "list":
            # the weight vector may be any sequence: tuple, int64 array, float64 array (the objective must not write into it)
            wobj = tuple(wts) if wkind == "tuple" else np.array(wts, dtype=float if wkind == "ndarray_f" else None)
        objective = _OBJ_CACHE[okey] = A.objective(name, kp, wobj)
        if wts is not None:
            _W_SNAP[okey] = (wobj, list(map(float, wts)))
    want = O.objval(name, vec, kp, wts)
    sums = container(vec, kind)
    try:
        if flag:
            # the flag is passed by keyword or positionally (both are legal call forms)
            got = objective.value_to_minimize(sums, are_sums_in_ascending_order=True) if case.get("flag_form", "kw") == "kw" else objective.value_to_minimize(sums, True)
        else:
            got = objective.value_to_minimize(sums) if case.get("flag_form", "kw") == "kw" else objective.value_to_minimize(sums, False)
    except Exception as e:
        if name == "wmaxmin" and flag and isinstance(e, ValueError):
            ctx.held(key=("w-refused", tuple(vec)), nontrivial=False, cls="weighted/refuses_flag")
            return
        ctx.violation("exception", name, case, {"exc": repr(e)[:200]})
        return
    if name == "wmaxmin":
        ok = abs(float(got) - float(want)) <= 1e-9 * max(1.0, abs(float(want)))
    elif isinstance(got, (int, np.integer)) and not isinstance(got, bool):
        ok = int(got) == want                      # exact, also beyond 2^53
    else:
        ok = F(float(got)) == F(want)
    if not ok:
        ctx.violation("value_differs_from_documented_quantity", name, case, {"got": float(got), "want": float(want)})
        return
    if name == "wmaxmin":
        # evaluated again by the same instance (the second evaluation must see the same weights), and the caller's weight vector must be untouched
        got2 = objective.value_to_minimize(container(vec, kind))
        wobj, wsnap = _W_SNAP[okey]
        if abs(float(got2) - float(want)) > 1e-9 * max(1.0, abs(float(want))) or [float(x) for x in wobj] != wsnap:
            ctx.violation("weighted_objective_changes_between_evaluations", name, case, {"first": float(got), "second": float(got2), "want": float(want),
                                                                                        "weights_now": [float(x) for x in wobj], "weights_given": wsnap})
            return
    unsorted_distinct = len(set(vec)) >= 2 and list(vec) != sorted(vec)
    ctx.held(key=(name, kp, tuple(wts or ()), kind, tuple(vec), flag), nontrivial=unsorted_distinct or (flag and len(set(vec)) >= 2),
             cls=f"{name}/{kind}/{'sortedflag' if flag else 'noflag'}", sample={"case": case, "value": float(got)})


def judge_history(case, ctx):
    """
    One mutable container (list / ndarray), one objective instance: evaluate, update the container IN PLACE, evaluate again ... - every value must be the documented
    function of the CURRENT contents (an objective that remembers the previous vector shows here).
    """
    A = C.algos()
    ctx.evaluated()
    name, kp = case["objective"], case.get("k")
    okey = (name, kp, ())
    objective = _OBJ_CACHE.get(okey)
    if objective is None:
        objective = _OBJ_CACHE[okey] = A.objective(name, kp)
    sums = container(case["vec"], case["kind"])
    cur = list(case["vec"])
    for step, (i, v) in enumerate([(None, None)] + [tuple(m) for m in case["mutations"]]):
        if i is not None:
            sums[i] = v
            cur[i] = v
        try:
            got = objective.value_to_minimize(sums)
        except Exception as e:
            ctx.violation("exception", name, case, {"exc": repr(e)[:200], "step": step})
            return
        want = O.objval(name, cur, kp)
        if F(float(got)) != F(want):
            ctx.violation("value_after_in_place_update_differs", name, case, {"step": step, "current_vector": cur, "got": float(got), "want": float(want)})
            return
    ctx.held(key=("hist", name, kp, case["kind"], tuple(case["vec"]), repr(case["mutations"])), nontrivial=len(set(case["vec"])) >= 2, cls=f"{name}/{case['kind']}/in_place_history",
             sample={"case": case})


def cases_for(vec, rng, kinds=("list", "tuple", "ndarray", "ndarray_f", "ndarray_u")):
    nb = len(vec)
    srt = sorted(vec)
    for name in NAMES:
        ks = [None] if name in ("maxmin", "minmax", "diff") else range(1, nb + 3)
        for kp in ks:
            kind = rng.choice(kinds)
            yield {"objective": name, "k": kp, "vec": list(vec), "kind": kind, "flag": False}
            yield {"objective": name, "k": kp, "vec": srt, "kind": kind, "flag": True, "flag_form": rng.choice(["kw", "pos"])}      # fast path on truly sorted input
            yield {"objective": name, "k": kp, "vec": srt[::-1], "kind": rng.choice(kinds), "flag": False, "flag_form": rng.choice(["kw", "pos"])}
    wts = [rng.choice([1, 2, 3, 5, 10, 0.5]) for _ in vec]
    wts = [w if isinstance(w, float) and not w.is_integer() else int(w) for w in wts]
    if rng.random() < 0.5:
        wts = [int(w) if float(w).is_integer() else 2 for w in wts]       # integer-valued weights for the array kinds
    yield {"objective": "wmaxmin", "weights": wts, "vec": list(vec), "kind": rng.choice(kinds), "flag": False, "weights_kind": rng.choice(["list", "tuple", "ndarray_f", "ndarray_i"])}
    yield {"objective": "wmaxmin", "weights": wts, "vec": srt, "kind": "list", "flag": True}


def run_shard(spec, rng, ctx):
    end = C.budget(spec)
    G = spec["grid_max"]
    # (1) bounded-exhaustive grid, sharded by index
    idx = 0
    done_grid = True
    for nb in range(1, 6):
        for vec in itertools.product(range(G + 1), repeat=nb):
            idx += 1
            if idx % spec["nshards"] != spec["shard"]:
                continue
            if C.now() > end + 30:
                done_grid = False
                break
            for case in cases_for(vec, rng):
                judge(case, ctx)
            ctx.counters["grid_vectors"] += 1
    ctx.counters["grid_complete_shards"] += int(done_grid)
    # (2) in situ: value contract during dp / complete greedy runs
    from rv.monitors import Contracts
    con = Contracts(mode="record").install()
    try:
        t_in = C.now() + max(3.0, (end - C.now()) * 0.5)
        while C.now() < t_in:
            alg = rng.choice(["dp", "cg"])
            case = C.draw_partition_case(rng, alg=alg, classes=("small", "ties", "zeros", "equal", "grid"))
            if len(case["values"]) > 7:
                case["values"] = case["values"][:7]
            r, _, _ = C.run_partition_case(case, "Sums", ctx=ctx, timeout=15)
            ctx.counters["insitu_runs"] += 1
            for b in con.take_broken():
                if b["what"].startswith("objective value"):
                    ctx.violation("insitu_value_contract", case["alg"], case, b)
    finally:
        con.uninstall()
    ctx.counters["insitu_value_evaluations"] += sum(v for k, v in con.evals.items() if k.startswith("value:"))
    ctx.reach.update({"contract." + k: v for k, v in con.evals.items()})
    # (3) random large vectors
    while C.now() < end:
        nb = rng.randint(1, 9)
        hi = rng.choice([10, 1000, 10 ** 6, 10 ** 9, 2 ** 40, 2 ** 49])
        vec = [rng.randint(0, hi) for _ in range(nb)]
        for case in cases_for(vec, rng):
            judge(case, ctx)
        ctx.counters["random_vectors"] += 1
        # the same container updated in place between evaluations by the same objective instance
        if len(vec) >= 2:
            name = rng.choice(NAMES)
            judge_history({"objective": name, "k": rng.randint(1, len(vec) + 1) if name in ("ksmall", "klarge") else None, "vec": [min(v, 10 ** 6) for v in vec],
                           "kind": rng.choice(["list", "ndarray", "ndarray_f"]),
                           "mutations": [[rng.randrange(len(vec)), rng.randint(0, 1000)] for _ in range(rng.randint(1, 4))]}, ctx)
        # arbitrary-precision integer sums (lists / tuples of Python ints around and beyond 2^63): the documented quantity is still exact there
        base = 2 ** rng.choice([53, 60, 62, 63, 64, 70])
        vec = [base + rng.randint(-3, 50) if rng.random() < 0.8 else rng.randint(0, 1000) for _ in range(rng.randint(1, 6))]
        for case in cases_for(vec, rng, kinds=("list", "tuple")):
            if case["objective"] != "wmaxmin":
                judge(case, ctx)
        ctx.counters["bigint_vectors"] += 1


def replay(case, ctx):
    if "mutations" in case:
        judge_history(case, ctx)
    elif "objective" in case and "vec" in case:
        judge(case, ctx)
    else:
        from rv.monitors import Contracts
        con = Contracts(mode="record").install()
        try:
            C.run_partition_case(case, "Sums", ctx=ctx)
            for b in con.take_broken():
                ctx.violation("insitu_value_contract", case["alg"], case, b)
        finally:
            con.uninstall()
