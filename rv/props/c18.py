"""
C18 — results respect problem symmetries; exact solvers agree beyond oracle size (DESIGN.md §5 C18).
Deciding monitor: M1 on pairs of related calls (metamorphic relations) and on pools of exact algorithms + heuristics on 11-16 items (O6 certificate oracle:
any VALIDATED partition with a strictly better objective refutes the optimality claimed by an exact algorithm).
"""
import time, random
from collections import Counter
from fractions import Fraction as F
from rv.props import common as C
from rv import oracles as O, gen
from rv.harness import max_n

LEVEL = "exploration"
RULE = ("metamorphic: base inputs of the C01/C03/C05 classes x {3 permutations, 2 scale factors from {2,3,7,10,1024} (multifit: {2,1024}; binsize scaled for packers/coverers), 1-3 appended zeros}; exact "
        "algorithms (cg 3 objectives, ckk, snp, rnp<=3 bins, dp, ilp, cbldm, bin-completion's count) are compared on their optimal VALUE, sorting heuristics (greedy, roundrobin, multifit, kk, ffd, bfd, "
        "3 covers) on their multiset of sums, online first/best-fit only under scaling; agreement: 11-16 items with values <= 100, 2-5 bins, all exact algorithms inside their cost envelope + 4 heuristics, "
        "difference / largest / smallest objectives; non-trivial (metamorphic) = non-identity permutation of not-all-equal values or scaling or zeros on >= 3 items; (agreement) >= 2 exact algorithms and >= 1 "
        "heuristic returned different partitions; distinct on (relation, algorithm, base case)")
ASSUMPTIONS = ["exactness of float64 sums below 2^53 (scaled totals stay below 2^50)", "rnp with >= 4 bins only in the agreement pool (open finding KF-rnp-subopt applies there)"]
FLOORS = {"quick": {"distinct_nontrivial": 2000, "agreement_instances": 15}, "thorough": {"distinct_nontrivial": 10000, "agreement_instances": 75}}
SCALES = (2, 3, 7, 10, 1024)
SORTING = ("greedy", "roundrobin", "multifit", "kk", "ffd", "bfd", "decreasing", "twothirds", "threequarters")
EXACT_VALUE = {"cg": None, "ckk": "diff", "snp": "diff", "rnp": "diff", "dp": None, "ilp": None, "cbldm": "diff"}


def plan(tier, seed):
    n = 16 if tier == "quick" else 64
    b = 60 if tier == "quick" else 170
    return [{"seed": seed * 1000 + i, "shard": i, "budget_s": b, "watchdog_s": b * 6 + 300} for i in range(n)]


def run(case, ctx, timeout=20):
    if case["kind"] == "partition":
        return C.run_partition_case(case, "PartitionAndSumsTuple", ctx=ctx, timeout=timeout, pres="list")
    return C.run_pack_case(case, "PartitionAndSumsTuple", ctx=ctx, timeout=timeout, pres="list")


def observe(case, ctx):
    """What the relation compares: ('value', x) for exact algorithms, ('sums', multiset) for heuristics; None if inconclusive."""
    r, names, vmap = run(case, ctx)
    if r.timeout:
        return "timeout", None
    if not r.ok:
        return "exception", C.exc_witness(r, case) if r.exc is not None else {"none": True}
    sums, lists = r.value
    s = [sum(F(x) for x in b) for b in lists]
    alg = case["alg"]
    if case["kind"] == "partition":
        if not O.is_partition_of(lists, case["values"]):
            return "invalid", {"bins": [list(map(str, b)) for b in lists][:10]}
        if alg in EXACT_VALUE:
            name, kp = case.get("objective") or ["diff", None]
            return "value", O.objval(name, s, kp)
        return "sums", Counter(s)
    if alg == "bc":
        return "value", len(lists)
    return "sums", Counter(s)


def relate(base, ctx, rng):
    """Run the base case and its transforms; judge each relation."""
    alg, kind = base["alg"], base["kind"]
    vals = base["values"]
    tag0, obs0 = observe(base, ctx)
    if tag0 == "timeout":
        ctx.inconc("timeout", base)
        return
    if tag0 in ("exception", "invalid"):
        ctx.evaluated()
        ctx.violation(tag0, alg, base, obs0)
        return
    sorting = alg in SORTING or alg in EXACT_VALUE or alg == "bc"
    relations = []
    if sorting:
        for _ in range(3):
            p = list(vals)
            rng.shuffle(p)
            relations.append(("permutation", dict(base, values=p), 1))
        # already-sorted presentations (a sort that is skipped because the input "looks sorted" shows here)
        relations.append(("permutation", dict(base, values=sorted(vals)), 1))
        relations.append(("permutation", dict(base, values=sorted(vals, reverse=True)), 1))
    scales = (2, 1024) if alg == "multifit" else SCALES
    for c in rng.sample(scales, 2):
        if max(vals + [0]) * c * max(1, len(vals)) >= 2 ** 50:
            continue
        t = dict(base, values=[v * c for v in vals])
        if kind != "partition":
            t["C"] = base["C"] * c
        relations.append((f"scale_x{c}", t, c))
    # appended zeros: exact partitioners only; cbldm only in its unconstrained setting (with a cardinality bound the zeros legitimately change
    # which partitions are admissible, hence the constrained optimum)
    if kind == "partition" and alg in EXACT_VALUE and not (alg == "cbldm" and base.get("cbldm_d") is not None):
        z = rng.randint(1, 3)
        t = dict(base, values=vals + [0] * z)
        if len(t["values"]) <= max_n(alg, base["k"]) + 2 or alg == "cbldm":
            relations.append((f"zeros_+{z}", t, 1))
    if alg == "bc":
        z = rng.randint(1, 3)
        relations.append((f"zeros_+{z}", dict(base, values=vals + [0] * z), 1))
    for rel, t, c in relations:
        ctx.evaluated()
        tag, obs = observe(t, ctx)
        if tag == "timeout":
            ctx.inconc("timeout", t)
            continue
        if tag in ("exception", "invalid"):
            ctx.violation(tag + "_on_transformed_input", alg, t, dict(obs, relation=rel))
            continue
        if rel.startswith("zeros") and tag0 == "sums":
            continue
        scale_obs = alg == "bc" and rel.startswith("scale")
        if tag0 == "value":
            want = obs0 if (alg == "bc") else obs0 * c
            ok = obs == want
            w = {"relation": rel, "base_value": float(obs0), "transformed_value": float(obs), "expected": float(want)}
        else:
            want = Counter({k_ * c: n for k_, n in obs0.items()})
            ok = obs == want
            w = {"relation": rel, "base_sums": sorted(map(float, obs0.elements()))[:12], "transformed_sums": sorted(map(float, obs.elements()))[:12]}
        if not ok:
            w["base_case"] = {k_: v for k_, v in base.items() if k_ in ("values", "k", "C", "objective", "cg_mask", "iterations", "cbldm_d")}
            ctx.violation("relation_broken:" + rel.split("_")[0], alg, t, w)
            continue
        nontriv = len(vals) >= 3 and (rel != "permutation" or (t["values"] != vals and len(set(vals)) > 1))
        ctx.held(key=(rel, alg, base.get("k", base.get("C")), tuple(vals), tuple(base.get("objective") or ()), base.get("cg_mask")), nontrivial=nontriv,
                 cls=f"{rel.split('_')[0]}/{alg}", sample={"base": base, "relation": rel, "transformed_values": t["values"][:20]})


def draw_base(rng, i):
    which = i % 20
    if which < 11:
        alg = C.ALL_PART[which]
        case = C.draw_partition_case(rng, alg=alg, classes=("small", "ties", "equal", "zeros", "perfect", "powers", "onehuge", "bignear"), pres="list")
        if alg == "rnp" and case["k"] > 3:
            case["k"] = 3
        lim = 9 if (alg in ("snp", "cg") and case["k"] <= 4) else 7       # snp / complete greedy are affordable at 9 items (their pruning defects need >= 9 items, >= 4 bins)
        if alg in ("ckk", "snp", "rnp", "dp", "ilp", "cg") and len(case["values"]) > lim:
            case["values"] = case["values"][:lim]
        if alg in ("snp", "cg") and case["k"] in (3, 4) and len(case["values"]) < 8 and rng.random() < 0.5:
            case["values"] = case["values"] + [rng.randint(1, 30) for _ in range(9 - len(case["values"]))]
        if alg == "ilp":
            case["values"] = [min(v, 20) for v in case["values"]]       # scaled values must stay <= 200 x 1024? no: ILP is scaled by 2..10 only (see below)
        if alg == "cg":
            case["objective"] = [rng.choice(("maxmin", "minmax", "diff")), None]
        if len(case["values"]) > 60:
            case["values"] = case["values"][:60]
        case["values"] = [min(v, 10 ** 6) for v in case["values"]]
        return case
    if which < 16:
        alg = C.PACKERS[which - 11]
        return C.draw_pack_case(rng, alg=alg, pres="list", frac_ok=False, nmax=11 if alg == "bc" else rng.choice([8, 12, 40]))
    if which < 19:
        return C.draw_cover_case(rng, alg=C.COVERERS[which - 16], pres="list", nmax=rng.choice([8, 12, 40]))
    return None


# ------------------------------------------------------------------ agreement beyond oracle size (O6 certificates)
def draw_agreement(rng):
    k = rng.choice([2, 3, 3, 4, 4, 5])
    n = rng.randint(11, {2: 16, 3: 15, 4: 13, 5: 12}[k])
    cls = rng.choice(["small100", "ties", "nearperfect"])
    if cls == "small100":
        vals = [rng.randint(1, 100) for _ in range(n)]
    elif cls == "ties":
        pool = [rng.randint(1, 30) for _ in range(4)]
        vals = [rng.choice(pool) for _ in range(n)]
    else:
        vals = gen.part_values(rng, "nearperfect", n, k)[:16]
        vals = [min(max(v, 0), 100) for v in vals]
    return {"kind": "partition", "k": k, "values": vals, "cls": "agreement/" + cls, "pres": "list", "pres_seed": 0}


def agreement(inst, rng, ctx):
    k, vals = inst["k"], inst["values"]
    n = len(vals)
    objectives = ["diff"] + rng.sample(["minmax", "maxmin"], 1)
    ctx.counters["agreement_instances"] += 1
    for name in objectives:
        pool = []
        if name == "diff":
            pool += [("ckk", {}), ("snp", {}), ("rnp", {})]
            if n > {2: 14, 3: 12, 4: 11}.get(k, 0):
                pool = [p for p in pool if p[0] != "ckk"]          # ckk enumerates k! pairings per merge: outside its cost envelope here
        pool += [("cg", {"objective": [name, None], "cg_mask": 11}), ("cg", {"objective": [name, None], "cg_mask": rng.randrange(16)})]
        if n <= 12 and k <= 3:
            pool.append(("ilp", {"objective": [name, None]}))
        heur = [("greedy", {}), ("kk", {}), ("multifit", {"iterations": 10}), ("roundrobin", {})]
        results = []
        for alg, extra in pool + heur:
            case = dict(inst, alg=alg, **extra)
            ctx.evaluated()
            r, names, vmap = C.run_partition_case(case, "PartitionAndSumsTuple", ctx=ctx, timeout=15, pres="list")
            if r.timeout:
                ctx.inconc("timeout:" + alg, case)
                continue
            if not r.ok:
                ctx.violation("exception", alg, case, C.exc_witness(r, case) if r.exc is not None else {"none": True})
                continue
            sums, lists = r.value
            valid = O.is_partition_of(lists, vals) and (len(lists) == k or (alg == "multifit" and len(lists) <= k))
            if not valid:
                if alg in EXACT_VALUE:
                    ctx.violation("invalid", alg, case, {"bins": lists[:10]})
                continue
            s = [sum(b) for b in lists] + [0] * (k - len(lists))
            results.append((alg, case, O.objval(name, s), canon(lists), alg in EXACT_VALUE))
        if not results:
            continue
        best = min(v for _, _, v, _, _ in results)
        cert = next(a for a, _, v, _, _ in results if v == best)
        kkv = next((v for a, _, v, _, _ in results if a == "kk"), None)
        exact = [x for x in results if x[4]]
        for alg, case, v, _, _ in exact:
            if v > best:
                ctx.violation("suboptimal", alg, case, {"numbins": k, "objective": name, "got": v, "opt": best, "certificate_from": cert, "valid_partition": True,
                                                        "kk_value": kkv if name == "diff" else None, "note": "opt = value of a validated partition returned by another algorithm"})
        distinct_parts = len({c for _, _, _, c, e in results if e})
        nontriv = len(exact) >= 2 and distinct_parts >= 2 and any(v > best for _, _, v, _, e in results if not e)
        if all(v == best for _, _, v, _, e in results if e):
            ctx.held(key=("agree", name, k, tuple(sorted(vals))), nontrivial=nontriv, cls=f"agreement/{name}/k={k}",
                     sample={"instance": inst, "objective": name, "agreed_value": best, "exact_algorithms": [a for a, *_ in exact], "heuristic_values": {a: v for a, _, v, _, e in results if not e}})


def canon(lists):
    return tuple(sorted(tuple(sorted(b)) for b in lists))


def run_shard(spec, rng, ctx):
    end = C.budget(spec)
    i = 0
    t_agree = 0.0
    t0 = C.now()
    while C.now() < end:
        # a third of the budget goes to the agreement pool
        if t_agree < (C.now() - t0) * 0.35:
            t = C.now()
            agreement(draw_agreement(rng), rng, ctx)
            t_agree += C.now() - t
            continue
        base = draw_base(rng, i)
        i += 1
        if base is None:
            continue
        if base["alg"] == "ilp":
            base["values"] = [min(v, 20) for v in base["values"]]
        relate(base, ctx, rng)


def replay(case, ctx):
    rng = random.Random(0)
    if "base_case" in case:
        case = dict(case, **case["base_case"])
    if case.get("cls", "").startswith("agreement"):
        agreement({k_: case[k_] for k_ in ("kind", "k", "values", "cls", "pres", "pres_seed")}, rng, ctx)
        return
    relate(case, ctx, rng)
