"""
C04 — bin-completion uses the minimum possible number of bins (DESIGN.md §5 C04).
Deciding monitor: M1 on prtpy.pack(bin_completion); oracle O2 (exact branch and bound), FFD/BFD reference counts, planted optima.
"""
import time
from rv.props import common as C
from rv import oracles as O, refmodels as R, gen

LEVEL = "exploration"
RULE = ("bounded-exhaustive: every multiset of 1..7 (thorough 8) items over 1..C, C in 4..7 (completion reported as grid_exhaustive_complete_shards); then bin-completion on hardpack / repeat / threshold / random / planted integer instances with 1 <= v <= binsize, n <= 12, and (40%) on a rejection-sampled class of 6..13 items on which both reference decreasing heuristics exceed ceil(total/binsize), i.e. bin-completion has to search (Partition always, all three output types on a quarter of them); the number of bins "
        "from Partition, Sums and BinCount is compared with the exact optimum (O2), with first-fit-decreasing and best-fit-decreasing; "
        "non-trivial = best-fit-decreasing uses more bins than the optimum (bin-completion had to improve on its starting point); distinct on (binsize, sorted values)")
ASSUMPTIONS = ["O2 is an independent exact branch-and-bound (cross-checked against planted instances in rv.oracles.selfcheck)", "integer values, list presentation"]
FLOORS = {"quick": {"distinct_nontrivial": 300}, "thorough": {"distinct_nontrivial": 1500}}


def plan(tier, seed):
    n = 16 if tier == "quick" else 64
    b = 45 if tier == "quick" else 120
    return [{"seed": seed * 1000 + i, "shard": i, "nshards": n, "budget_s": b, "max_cases": 10 ** 7, "watchdog_s": b * 5 + 120} for i in range(n)]


def judge(case, ctx):
    ctx.evaluated()
    Cs, vals = case["C"], case["values"]
    try:
        opt = O.min_bins(vals, Cs)
    except O.OracleBudget:
        ctx.inconc("oracle_budget", case)
        return
    counts = {}
    for ot in case.get("outputtypes") or ("Partition", "Sums", "BinCount"):
        r, names, vmap = C.run_pack_case(case, ot, ctx=ctx, pres="list")
        if r.timeout:
            ctx.inconc("timeout", case)
            return
        if r.exc is not None or r.raw_none:
            ctx.violation("exception", "bc", case, dict(C.exc_witness(r, case), outputtype=ot) if r.exc is not None else {"outputtype": ot})
            return
        counts[ot] = int(r.value) if ot == "BinCount" else len(r.value)
        if ot == "Partition":
            lists = r.value
            if not O.is_partition_of(lists, [v for v in vals if v != 0]) or any(sum(b) > Cs for b in lists):
                ctx.violation("invalid_packing", "bc", case, {"bins": lists[:14]})     # C03's business too; an invalid packing has no meaningful count
                return
    ffd, bfd = len(R.first_fit_decreasing(vals, Cs)), len(R.best_fit_decreasing(vals, Cs))
    w = {"binsize": Cs, "counts": counts, "optimum": opt, "ffd": ffd, "bfd": bfd}
    if len(set(counts.values())) != 1:
        ctx.violation("count_depends_on_output_type", "bc", case, w)
        return
    got = counts["Partition"]
    if got > opt:
        ctx.violation("more_bins_than_optimum", "bc", case, w)
        return
    if got < opt:
        ctx.violation("fewer_bins_than_possible", "bc", case, w)
        return
    ctx.held(key=(Cs, tuple(sorted(vals))), nontrivial=bfd > opt, cls=case["cls"], sample={"case": case, **w})
    if bfd > opt:
        ctx.counters["bfd_not_optimal"] += 1
    if ffd > opt:
        ctx.counters["ffd_not_optimal"] += 1


def draw_search_needed(rng):
    """
    Volume class: instances on which bin-completion HAS to search - both reference decreasing heuristics (rv/refmodels.py) need more bins than ceil(total/binsize), so the
    best-fit-decreasing incumbent is not provably optimal - found by rejection sampling with the cheap reference models (a few percent of the candidates pass).
    Medium bin sizes, 6..13 items up to 2/3 of the bin, often with one or two tiny items (the completions that differ only by a tiny item are where dominance rules go wrong).
    """
    for _ in range(400):
        Cs = rng.randint(8, 60)
        n = rng.randint(6, 13)
        top = max(2, (2 * Cs) // 3) if rng.random() < 0.7 else Cs
        v = [rng.randint(1, top) for _ in range(n)]
        if rng.random() < 0.4:
            for _ in range(rng.choice([1, 1, 2])):
                v[rng.randrange(n)] = rng.randint(1, 3)
        if min(len(R.first_fit_decreasing(v, Cs)), len(R.best_fit_decreasing(v, Cs))) > -(-sum(v) // Cs):
            break
    ots = ("Partition", "Sums", "BinCount") if rng.random() < 0.25 else ("Partition",)
    return {"kind": "pack", "alg": "bc", "C": Cs, "values": gen.arrange(rng, v, rng.choice(gen.ORDERS)), "cls": "search_needed", "pres": "list", "pres_seed": 0, "outputtypes": list(ots)}


def draw(rng):
    if rng.random() < 0.4:
        return draw_search_needed(rng)
    cls = rng.choice(["hardpack", "hardpack", "repeat", "repeat", "repeat", "repeat_large", "repeat_large", "threshold", "random", "planted", "widerange"])
    Cs, v = gen.pack_instance(rng, cls, rng.choice([8, 10, 12]))
    v = [max(1, x) for x in v]
    return {"kind": "pack", "alg": "bc", "C": Cs, "values": gen.arrange(rng, v, rng.choice(gen.ORDERS)), "cls": cls, "pres": "list", "pres_seed": 0}


def run_shard(spec, rng, ctx):
    from rv.monitors import standard_probes
    probes = standard_probes().start()
    end = C.budget(spec)
    i = 0
    try:
        # bounded-exhaustive small scope: every multiset of 1..7 (thorough 8) items over 1..C for C in 4..7 (at most 30% of the budget)
        grid_end = C.now() + 0.3 * float(spec.get("budget_s", 60))
        complete = True
        for Cs in (4, 5, 6, 7):
            for ms in C.sharded(C.multisets(range(1, Cs + 1), 8 if spec.get("tier") == "thorough" else 7), spec):
                if C.now() > grid_end:
                    complete = False
                    break
                judge({"kind": "pack", "alg": "bc", "C": Cs, "values": list(ms), "cls": "grid_exhaustive", "pres": "list", "pres_seed": 0}, ctx)
                ctx.counters["grid_exhaustive_instances"] += 1
        ctx.counters["grid_exhaustive_complete_shards"] += int(complete)
        while i < spec["max_cases"] and C.now() < end:
            judge(draw(rng), ctx)
            i += 1
    finally:
        probes.stop()
    ctx.reach.update({k: v for k, v in probes.counts.items() if k.startswith("bc.")})


def replay(case, ctx):
    judge(case, ctx)
