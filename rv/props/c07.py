"""
C07 — the answer does not depend on how the items are presented (DESIGN.md §5 C07).
Deciding monitor: M1; one value vector is presented as list, int64 ndarray, dict (string / integer names, disjoint from and
overlapping the value range) and names+valueof; oracle: equal multisets of bin sums + validity of the named result.
"""
import time
from collections import Counter
from fractions import Fraction
from rv.props import common as C
from rv import oracles as O

LEVEL = "exploration"
RULE = ("all 19 algorithms x tie-heavy and generic inputs of the C01/C03/C05 classes; every case is executed under 10 presentations (a dict subclass - OrderedDict / defaultdict / Counter -, list, int64 array, unsigned-integer array, dict whose integer names are other items' values, dict(enumerate(values)), dict with "
        "shuffled string names, names+valueof with integer names disjoint from the values, dict with integer names overlapping the value range, names+valueof strings); "
        "30% of each shard: the 11 cheap heuristics on small value ranges (values <= 5..20, <= 12 items) under list / shuffled-string dict / dict(enumerate) / integer names; every 40th case: 9-11 items over two distinct values into 5 bins for ckk under list, array and dict; non-trivial = >= 3 items, >= 2 bins; distinct on (algorithm, config, size, sorted values)")
ASSUMPTIONS = ["integer values (ndarray presentation needs them)", "bin-completion with names is the open finding KF-bc-names"]
FLOORS = {"quick": {"distinct_nontrivial": 800}, "thorough": {"distinct_nontrivial": 4000}}
PRES = ("list", "array", "dict_str", "names_int", "dict_int_overlap", "names_str", "dict_enum", "array_u", "dict_val_shift", "dict_sub")


def plan(tier, seed):
    n = 16 if tier == "quick" else 64
    b = 40 if tier == "quick" else 110
    return [{"seed": seed * 1000 + i, "shard": i, "budget_s": b, "max_cases": 10 ** 7, "watchdog_s": b * 5 + 120} for i in range(n)]


def run(case, pres, ctx):
    if case["kind"] == "partition":
        return C.run_partition_case(case, "PartitionAndSumsTuple", ctx=ctx, timeout=6 if case.get("cls") == "twovalued_manybins" else 15, pres=pres)
    return C.run_pack_case(case, "PartitionAndSumsTuple", ctx=ctx, timeout=15, pres=pres)


def judge(case, ctx):
    alg, kind = case["alg"], case["kind"]
    ctx.evaluated()
    ref = None
    for pres in (case.get("pres_subset") or PRES):
        if pres == "dict_val_shift" and any(isinstance(v, float) for v in case["values"]):
            continue
        named = pres not in ("list", "array", "array_u")
        if pres == "array_u" and (sum(case["values"]) >= 2 ** 31 or any(isinstance(v, float) for v in case["values"])):
            continue        # unsigned presentation only while every sum stays far below the dtype's limit (fixed-width overflow is numpy's semantics, not prtpy's)
        r, names, vmap = run(case, pres, ctx)
        if r.timeout:
            ctx.inconc("timeout:" + alg, case)
            return
        w = {"presentation": pres, "names_differ_from_values": named}
        if not r.ok:
            w.update(C.exc_witness(r, case) if r.exc is not None else {"none": True})
            ctx.violation("exception", alg, dict(case, pres=pres), w)
            return
        sums, lists = r.value
        vals = [[Fraction(C.value_of(x, vmap)) for x in b] for b in lists]
        w["bins"] = [[str(x) for x in b] for b in lists][:10]
        # the named result must be a correct partition / packing / cover of the names whose values reproduce the sums
        bad = None
        flat = Counter(O._key(x) for b in lists for x in b)
        want = Counter(map(O._key, names))
        if kind == "partition":
            if flat != want:
                bad = "names are not partitioned exactly"
        elif kind == "pack":
            miss = want - flat
            if flat - want or any(Fraction(C.value_of(_unkey(k, names), vmap)) != 0 for k in miss):
                bad = "names are not packed exactly once"
            elif any(sum(b) > Fraction(case["C"]) for b in vals):
                bad = "a bin exceeds the bin size"
        else:
            if flat - want:
                bad = "a name is used twice or invented"
            elif any(sum(b) < Fraction(case["C"]) for b in vals):
                bad = "a bin is not covered"
        if bad is None and any(Fraction(float(s)) != sum(b) for s, b in zip(sums, vals)):
            bad = "values of the named bins do not reproduce the reported sums"
        if bad:
            ctx.violation("invalid_named_result", alg, dict(case, pres=pres), dict(w, problem=bad))
            return
        ms = Counter(sum(b) for b in vals)
        if ref is None:
            ref = (pres, ms)
        elif ms != ref[1]:
            ctx.violation("sums_differ", alg, dict(case, pres=pres),
                          dict(w, sums=sorted(map(float, ms.elements())), reference_presentation=ref[0], reference_sums=sorted(map(float, ref[1].elements()))))
            return
    nb = sum(ref[1].values())
    ctx.held(key=(alg, case.get("k", case.get("C")), tuple(sorted(case["values"])), tuple(case.get("objective") or ()), case.get("cg_mask")),
             nontrivial=len(case["values"]) >= 3 and nb >= 2, cls=f"{kind}/{alg}", sample={"case": case, "sums": sorted(map(float, ref[1].elements()))[:10]})
    ctx.counters["alg:" + alg] += 1


def _unkey(k, names):
    for n in names:
        if O._key(n) == k:
            return n
    raise KeyError(k)


def draw(rng, i):
    if i % 40 == 39:
        # many bins, few distinct values: the searches de-duplicate on bin CONTENTS, and with list/array input equal values are indistinguishable names
        k = 5
        pool = rng.sample(range(1, 8), 2)
        vals = [rng.choice(pool) for _ in range(rng.randint(9, 11))]
        return {"kind": "partition", "alg": "ckk", "k": k, "values": vals, "cls": "twovalued_manybins", "pres": "list",
                "pres_seed": rng.randrange(1 << 30), "pres_subset": ["list", "array", "dict_str"], "objective": None}
    which = i % 19
    ties = rng.random() < 0.5
    if which < 11:
        alg = C.ALL_PART[which]
        case = C.draw_partition_case(rng, alg=alg, cls=rng.choice(["ties", "equal", "zeros"]) if ties else None)
        if alg in ("ckk", "snp", "rnp", "dp", "ilp") and len(case["values"]) > 7:
            case["values"] = case["values"][:7]
        return case
    if which < 16:
        return C.draw_pack_case(rng, alg=C.PACKERS[which - 11], cls=rng.choice(["repeat", "threshold", "equal"]) if ties else None, frac_ok=False, nmax=12 if which == 15 else None)
    return C.draw_cover_case(rng, alg=C.COVERERS[which - 16], cls=rng.choice(["threshold", "equal"]) if ties else None)


CHEAP = ("greedy", "roundrobin", "kk", "multifit", "ff", "ffd", "bf", "bfd", "decreasing", "twothirds", "threequarters")


def draw_cheap(rng, i):
    """Cheap heuristics on small value ranges (many arithmetic coincidences and ties between values), 4 presentations: volume for rare name-dependent tie-breaks."""
    alg = CHEAP[i % len(CHEAP)]
    R = rng.choice([5, 10, 10, 20])
    n = rng.randint(2, 12)
    pres = {"pres": "list", "pres_seed": rng.randrange(1 << 30), "pres_subset": ["list", "dict_str", "dict_enum", "names_int", "dict_val_shift"]}
    if alg in ("greedy", "roundrobin", "kk", "multifit"):
        return dict({"kind": "partition", "alg": alg, "k": rng.choice([2, 3, 4]), "values": [rng.randint(0, R) for _ in range(n)], "cls": "cheap_smallrange",
                     "iterations": 10 if alg == "multifit" else None}, **pres)
    if alg in ("ff", "ffd", "bf", "bfd"):
        Cs = rng.randint(R, 2 * R)
        return dict({"kind": "pack", "alg": alg, "C": Cs, "values": [rng.randint(0, min(R, Cs)) for _ in range(n)], "cls": "cheap_smallrange", "order": "random"}, **pres)
    return dict({"kind": "cover", "alg": alg, "C": rng.randint(max(1, R // 2), 2 * R), "values": [rng.randint(1, R) for _ in range(n)], "cls": "cheap_smallrange", "order": "random"}, **pres)


def run_shard(spec, rng, ctx):
    end = C.budget(spec)
    cheap_end = C.now() + 0.3 * float(spec.get("budget_s", 60))
    j = 0
    while C.now() < cheap_end:
        judge(draw_cheap(rng, j), ctx)
        j += 1
    ctx.counters["cheap_smallrange_cases"] += j
    i = 0
    while i < spec["max_cases"] and C.now() < end:
        judge(draw(rng, i), ctx)
        i += 1


def replay(case, ctx):
    judge(case, ctx)
