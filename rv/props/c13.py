"""
C13 — search bounds are admissible and search enumerators are complete (DESIGN.md §5 C13).
Deciding monitors: (1) direct calls to Objective.lower_bound / InExclusionBinTree.generate_tree / Binner.all_combinations judged by O7 and the enumerator oracles;
(2) the same statements as M2 in-situ contracts while real searches (complete greedy, ckk, snp, rnp) run, so that the states real searches reach are checked.
"""
import itertools, time, random
from collections import Counter
from fractions import Fraction as F
import numpy as np
from rv.props import common as C
from rv import oracles as O, gen
from rv.harness import mod

LEVEL = "exploration"
RULE = ("(a) lower_bound: bounded-exhaustive over all sorted vectors of 1..4 bins over 0..G and remaining totals 0..8 (G = 5 quick, 6 thorough; sharded), random vectors with up to 16 bins and values up to 2^49, "
        "both values of the sorted flag, list/tuple/ndarray; (b) generate_tree: item lists (n <= 10) with zeros and repeats, integer and fractional windows including empty and inverted ones, "
        "named and unnamed items, plus windows tightened by the caller between yields (soundness at yield time); (c) all_combinations: pairs of bins-arrays with 1..5 bins, ties and empty bins, both managers, also with two or three enumerations of the same manager alive at once (interleaved); (d) in situ: contracts on the same three extension points while "
        "complete greedy / ckk / snp / rnp solve generated instances. Non-trivial: R > 0 and not all sums equal (a); window excludes >= 1 subset and admits >= 1 (b); >= 2 distinct pairings (c); "
        "distinct on the call's arguments")
ASSUMPTIONS = ["'best reachable value' = optimum over non-negative integer additions of the remaining total (the all-ones multiset attains it)",
               "in situ the in/ex tree is checked for soundness and uniqueness only: snp tightens the window while the generator is suspended"]
FLOORS = {"quick": {"distinct_nontrivial": 20000, "insitu_lower_bound_evaluations": 20000, "insitu_all_combinations_calls": 1000, "insitu_generate_tree_yields": 1000},
          "thorough": {"distinct_nontrivial": 100000, "insitu_lower_bound_evaluations": 100000, "insitu_all_combinations_calls": 5000, "insitu_generate_tree_yields": 5000}}
LB_NAMES = ("maxmin", "minmax", "diff")


def plan(tier, seed):
    n = 16 if tier == "quick" else 48
    b = 40 if tier == "quick" else 120
    return [{"seed": seed * 1000 + i, "shard": i, "nshards": n, "budget_s": b, "grid_max": 5 if tier == "quick" else 6, "watchdog_s": b * 6 + 200} for i in range(n)]


# ------------------------------------------------------------------ (a) lower bounds
def judge_lb(case, ctx):
    A = C.algos()
    ctx.evaluated()
    name, sums, R = case["objective"], case["sums"], case["R"]
    objective = A.objective(name)
    best = O.relaxed_opt(name, sums, R)
    results = {}
    for kind in ("list", "tuple", "ndarray"):
        cont = list(sums) if kind == "list" else tuple(sums) if kind == "tuple" else np.array(sums, dtype=np.int64)
        for flag in (False, True):
            try:
                results[(kind, flag)] = float(objective.lower_bound(cont, R, are_sums_in_ascending_order=flag))
            except Exception as e:
                ctx.violation("exception", "lower_bound/" + name, case, {"exc": repr(e)[:200], "container": kind, "flag": flag})
                return
    vals = set(results.values())
    if any(v > best for v in vals):
        ctx.violation("lower_bound_not_admissible", "lower_bound/" + name, case, {"bounds": {f"{k[0]}/{k[1]}": v for k, v in results.items()}, "best_reachable": best})
        return
    if len(vals) != 1:
        ctx.violation("lower_bound_depends_on_flag_or_container", "lower_bound/" + name, case, {"bounds": {f"{k[0]}/{k[1]}": v for k, v in results.items()}})
        return
    ctx.held(key=("lb", name, tuple(sums), R), nontrivial=R > 0 and len(set(sums)) > 1, cls="lower_bound/" + name,
             sample={"case": case, "bound": results[("list", True)], "best_reachable": best})
    if results[("list", True)] == best:
        ctx.counters["lb_tight"] += 1


# ------------------------------------------------------------------ (b) in/ex tree
def judge_tree(case, ctx):
    ctx.evaluated()
    T = mod("prtpy.inclusion_exclusion_tree").InExclusionBinTree
    vals, lo, hi = case["values"], F(case["lo"]), F(case["hi"])
    named = case["named"]
    if named:
        names = [f"n{i}" for i in range(len(vals))]
        random.Random(case.get("seed", 0)).shuffle(names)
        vmap = dict(zip(names, vals))
        items, valueof = names, vmap.__getitem__
    else:
        items, valueof = list(vals), (lambda x: x)
    try:
        got = [list(s) for s in T(items, valueof, upper_bound=float(hi) if hi.denominator != 1 else int(hi), lower_bound=float(lo) if lo.denominator != 1 else int(lo)).generate_tree()]
    except Exception as e:
        ctx.violation("exception", "generate_tree", case, {"exc": repr(e)[:200]})
        return
    want_idx = O.window_subsets(vals, lo, hi)
    if named:
        want = Counter(tuple(sorted(names[i] for i in idx)) for idx in want_idx)
        gotc = Counter(tuple(sorted(s)) for s in got)
    else:
        want = Counter(tuple(sorted(vals[i] for i in idx)) for idx in want_idx)
        gotc = Counter(tuple(sorted(s)) for s in got)
    if gotc != want:
        w = {"missing": [list(k) for k in (want - gotc)][:4], "extra_or_repeated": [list(k) for k in (gotc - want)][:4], "yielded": len(got), "expected": len(want_idx)}
        ctx.violation("tree_enumeration_wrong", "generate_tree", case, w)
        return
    total = 1 << len(vals)
    ctx.held(key=("tree", tuple(vals), str(lo), str(hi), named), nontrivial=0 < len(want_idx) < total, cls="generate_tree/" + ("named" if named else "values"),
             sample={"case": case, "yielded": len(got), "of_subsets": total})


# ------------------------------------------------------------------ (c) all_combinations
def judge_tree_dynamic(case, ctx):
    """
    The caller tightens the window while iterating (as snp does): every yielded sub-collection must lie within the bounds IN FORCE WHEN IT IS YIELDED, be a
    sub-collection of the items and not repeat. (Completeness is only defined for a static window and is judged by judge_tree.)
    """
    ctx.evaluated()
    T = mod("prtpy.inclusion_exclusion_tree").InExclusionBinTree
    vals = case["values"]
    names = [f"n{i}" for i in range(len(vals))]
    vmap = dict(zip(names, vals))
    tree = T(names, vmap.__getitem__, upper_bound=case["hi"], lower_bound=case["lo"])
    steps = {int(a): b for a, b in case["tighten"]}
    seen, n_y = set(), 0
    try:
        for sub in tree.generate_tree():
            lo, hi = tree.lower_bound, tree.upper_bound
            tot = sum(vmap[x] for x in sub)
            key = tuple(sorted(sub))
            if not (lo <= tot <= hi):
                ctx.violation("tree_yielded_outside_the_bounds_in_force", "generate_tree", case, {"yield": n_y, "sub": list(sub), "total": tot, "lower": lo, "upper": hi})
                return
            if key in seen or len(set(sub)) != len(sub) or any(x not in vmap for x in sub):
                ctx.violation("tree_repeated_or_invented_a_subcollection", "generate_tree", case, {"yield": n_y, "sub": list(sub)})
                return
            seen.add(key)
            if n_y in steps:
                tree.lower_bound = max(tree.lower_bound, steps[n_y])       # tighten from below, never beyond the upper bound
            n_y += 1
    except Exception as e:
        ctx.violation("exception", "generate_tree", case, {"exc": repr(e)[:200]})
        return
    ctx.held(key=("treedyn", tuple(vals), case["lo"], case["hi"], repr(case["tighten"])), nontrivial=n_y >= 2 and bool(steps), cls="generate_tree/tightened_while_iterating",
             sample={"case": case, "yields": n_y})


def judge_comb(case, ctx):
    ctx.evaluated()
    A = C.algos()
    b1, b2 = case["bins1"], case["bins2"]
    k = len(b1)
    if case["manager"] == "contents":
        binner = A.prtpy.BinnerKeepingContents(lambda x: case["vmap"][x] if isinstance(x, str) else x)
        val = binner.valueof
        a1 = (np.array([sum(map(val, b)) for b in b1], dtype=float), [list(b) for b in b1])
        a2 = (np.array([sum(map(val, b)) for b in b2], dtype=float), [list(b) for b in b2])
        want = O.all_pairings_contents(b1, b2)
        try:
            got = [(list(map(float, nb[0])), [list(x) for x in nb[1]]) for nb in binner.all_combinations(a1, a2)]
        except Exception as e:
            ctx.violation("exception", "all_combinations/contents", case, {"exc": repr(e)[:200]})
            return
        for sums, lists in got:
            if [float(sum(map(val, b))) for b in lists] != sums:
                ctx.violation("sums_inconsistent_with_contents", "all_combinations/contents", case, {"sums": sums, "lists": lists})
                return
        gotc = Counter(O.canon_bins(lists) for _, lists in got)
    else:
        binner = A.prtpy.BinnerKeepingSums()
        want = O.all_pairings_sums(list(map(float, b1)), list(map(float, b2)))
        try:
            as_list = case.get("as_list", False)       # the doctest passes plain lists, the algorithms pass float arrays: both forms are driven
            a1, a2 = (list(b1), list(b2)) if as_list else (np.array(b1, dtype=float), np.array(b2, dtype=float))
            got = [list(map(float, nb)) for nb in binner.all_combinations(a1, a2)]
        except Exception as e:
            ctx.violation("exception", "all_combinations/sums", case, {"exc": repr(e)[:200]})
            return
        gotc = Counter(tuple(sorted(nb)) for nb in got)
    alg = "all_combinations/" + case["manager"]
    dup = [k_ for k_, c in gotc.items() if c > 1]
    if dup:
        ctx.violation("pairing_yielded_more_than_once", alg, case, {"duplicate": repr(dup[0])[:300], "times": gotc[dup[0]], "yielded": len(got), "distinct_pairings": len(want)})
        return
    if set(gotc) != want:
        ctx.violation("pairings_missing_or_invented", alg, case, {"missing": repr(sorted(want - set(gotc))[:2])[:300], "extra": repr(sorted(set(gotc) - want)[:2])[:300]})
        return
    ctx.held(key=("comb", case["manager"], repr(b1), repr(b2)), nontrivial=len(want) >= 2, cls=alg, sample={"case": case, "distinct_pairings": len(want)})


def judge_comb_interleaved(case, ctx):
    """
    Two enumerations by the SAME manager are alive at the same time (nested loops over three partial partitions, or zip): each one must still yield exactly
    the distinct pairings of ITS OWN arguments.
    """
    ctx.evaluated()
    A = C.algos()
    if case["manager"] == "contents":
        binner = A.prtpy.BinnerKeepingContents()
        mk = lambda bins: (np.array([float(sum(b)) for b in bins]), [list(b) for b in bins])
        canon = lambda nb: O.canon_bins(nb[1])
        want = lambda b1, b2: O.all_pairings_contents(b1, b2)
    else:
        binner = A.prtpy.BinnerKeepingSums()
        mk = lambda bins: np.array(bins, dtype=float)
        canon = lambda nb: tuple(sorted(float(x) for x in nb))
        want = lambda b1, b2: O.all_pairings_sums(list(map(float, b1)), list(map(float, b2)))
    pairs = case["pairs"]
    try:
        gens = [binner.all_combinations(mk(b1), mk(b2)) for b1, b2 in pairs]
        got = [Counter() for _ in pairs]
        alive = list(range(len(gens)))
        order = random.Random(case.get("seed", 0))
        while alive:
            i = order.choice(alive)            # advance the live enumerations in a random interleaving
            try:
                nb = next(gens[i])
                got[i][canon((list(nb[0]), [list(x) for x in nb[1]]) if case["manager"] == "contents" else list(nb))] += 1
            except StopIteration:
                alive.remove(i)
    except Exception as e:
        ctx.violation("exception", "all_combinations/" + case["manager"], case, {"exc": repr(e)[:200]})
        return
    for i, (b1, b2) in enumerate(pairs):
        w = want(b1, b2)
        if set(got[i]) != w or any(c > 1 for c in got[i].values()):
            ctx.violation("interleaved_enumerations_disturb_each_other", "all_combinations/" + case["manager"], case,
                          {"enumeration": i, "missing": repr(sorted(w - set(got[i]))[:2])[:200], "extra": repr(sorted(set(got[i]) - w)[:2])[:200],
                           "repeated": repr([k_ for k_, c in got[i].items() if c > 1][:2])[:200]})
            return
    ctx.held(key=("combi", case["manager"], repr(pairs)), nontrivial=len(pairs) >= 2, cls="all_combinations/" + case["manager"] + "/interleaved", sample={"case": case})


def draw_comb(rng):
    k = rng.choice([1, 2, 2, 3, 3, 3, 4, 4, 5])
    manager = rng.choice(["sums", "contents"])
    pool = [rng.randint(0, 9) for _ in range(rng.randint(1, 4))]      # few distinct values -> ties between bins
    if manager == "sums":
        mk = lambda: sorted(rng.choice([0, rng.choice(pool), rng.choice(pool) + rng.choice(pool), rng.randint(0, 30)]) for _ in range(k))
        return {"kind": "comb", "manager": manager, "bins1": mk(), "bins2": mk(), "as_list": rng.random() < 0.5}
    named = rng.random() < 0.5
    vmap = {}
    cnt = [0]

    def mkbin():
        b = []
        for _ in range(rng.choice([0, 1, 1, 2, 3])):
            v = rng.choice(pool)
            if named:
                nm = f"x{cnt[0]}"
                cnt[0] += 1
                vmap[nm] = v
                b.append(nm)
            else:
                b.append(v)
        return b
    return {"kind": "comb", "manager": manager, "bins1": [mkbin() for _ in range(k)], "bins2": [mkbin() for _ in range(k)], "vmap": vmap}


def draw_tree(rng):
    n = rng.randint(0, 10) if rng.random() < 0.9 else rng.randint(0, 3)
    style = rng.choice(["repeats", "zeros", "random", "ones"])
    if style == "repeats":
        pool = [rng.randint(1, 9) for _ in range(2)]
        vals = [rng.choice(pool) for _ in range(n)]
    elif style == "zeros":
        vals = [rng.choice([0, 0, rng.randint(1, 9)]) for _ in range(n)]
    elif style == "ones":
        vals = [1] * n
    else:
        vals = [rng.randint(0, 40) for _ in range(n)]
    tot = sum(vals)
    kind = rng.choice(["int", "int", "frac", "empty", "inverted", "all", "point"])
    if kind == "int":
        lo = rng.randint(0, tot); hi = rng.randint(lo, tot + 1)
    elif kind == "frac":
        a, b = sorted([rng.randint(0, 3 * tot + 1), rng.randint(0, 3 * tot + 1)])
        lo, hi = a / 3 if a % 3 else a // 3, b / 3 if b % 3 else b // 3
        lo, hi = F(a, 3), F(b, 3)
        lo = float(lo) if lo.denominator != 1 else int(lo)
        hi = float(hi) if hi.denominator != 1 else int(hi)
    elif kind == "empty":
        lo, hi = tot + 1, tot + 5
    elif kind == "inverted":
        hi = rng.randint(0, max(0, tot - 1)); lo = hi + rng.randint(1, 3)
    elif kind == "all":
        lo, hi = 0, tot
    else:
        lo = hi = rng.randint(0, tot)
    return {"kind": "tree", "values": vals, "lo": lo, "hi": hi, "named": rng.random() < 0.5, "seed": rng.randrange(1000), "window": kind}


def insitu(spec, rng, ctx, until):
    """(d) contracts while real searches run."""
    from rv.monitors import Contracts
    con = Contracts(mode="record").install()
    try:
        i = 0
        while C.now() < until:
            alg = ("cg", "ckk", "snp", "rnp", "cg", "ckk")[i % 6]
            case = C.draw_partition_case(rng, alg=alg, classes=("small", "ties", "zeros", "equal", "perfect", "nearperfect", "onehuge", "powers"),
                                         pres=rng.choice(["list", "dict_str", "array"]))
            if alg == "cg":
                case["objective"] = [rng.choice(LB_NAMES), None]
                case["cg_mask"] |= 1          # use_lower_bound on
                if rng.random() < 0.2:
                    case["k"] = rng.choice([8, 9, 10, 12])        # many bins: the bounds are evaluated on long sum-vectors
                    case["values"] = [rng.randint(1, 100) for _ in range(rng.randint(4, 8))]
            if alg == "rnp" and case["k"] >= 6:
                case["k"] = 5
            if alg in ("ckk", "snp", "rnp") and len(case["values"]) > 8:
                case["values"] = case["values"][:8]
            ctx.evaluated()
            r, _, _ = C.run_partition_case(case, rng.choice(["Sums", "Partition"]), ctx=ctx, timeout=15)
            ctx.counters["insitu_runs:" + alg] += 1
            broken = con.take_broken()
            for b in broken:
                if b["what"].startswith("objective value"):
                    continue                    # C20's statement
                ctx.violation("insitu:" + b["what"], alg, case, b["witness"])
            if not broken:
                ctx.held(cls="insitu/" + alg)
            i += 1
    finally:
        con.uninstall()
    ev = con.evals
    ctx.counters["insitu_lower_bound_evaluations"] += sum(v for k, v in ev.items() if k.startswith("lower_bound:"))
    ctx.counters["insitu_all_combinations_calls"] += ev["all_combinations_calls"]
    ctx.counters["insitu_generate_tree_yields"] += ev["generate_tree_yields"]
    ctx.reach.update({"contract." + k: v for k, v in ev.items()})
    ctx.reach["insitu_distinct_lower_bound_states"] += len(con.states)


def run_shard(spec, rng, ctx):
    end = C.budget(spec)
    G = spec["grid_max"]
    t0 = C.now()
    span = end - t0
    # (a) grid, sharded
    idx = 0
    complete = True
    for k in range(1, 5):
        for sums in itertools.combinations_with_replacement(range(G + 1), k):
            for R in range(0, 9):
                idx += 1
                if idx % spec["nshards"] != spec["shard"]:
                    continue
                if C.now() > t0 + span * 0.45 + 20:
                    complete = False
                    break
                for name in LB_NAMES:
                    judge_lb({"kind": "lb", "objective": name, "sums": list(sums), "R": R}, ctx)
    ctx.counters["lb_grid_complete_shards"] += int(complete)
    # (a') random, (b), (c)
    phase_end = t0 + span * 0.6
    while C.now() < phase_end:
        k = rng.choice([1, 2, 3, 4, 5, 6, 6, 8, 9, 10, 12, 16])     # the bounds must hold for any number of bins (rounding in running averages only shows with many bins)
        hi = rng.choice([3, 6, 10, 30, 100, 100, 10 ** 6, 2 ** 40, 2 ** 49])
        hi = min(hi, 2 ** 50 // (2 * k))          # keep sums + remaining total below 2^52: everything stays an exact float64 integer (the scope of the partitioners)
        sums = sorted(rng.randint(0, hi) for _ in range(k))
        R = rng.choice([0, rng.randint(0, 20), rng.randint(0, hi * k), sum(sums[-1] - x for x in sums) + rng.choice([-1, 0, 1, k, k + 1]) if True else 0])
        R = max(0, R)
        judge_lb({"kind": "lb", "objective": rng.choice(LB_NAMES), "sums": sums, "R": R}, ctx)
        judge_tree(draw_tree(rng), ctx)
        judge_comb(draw_comb(rng), ctx)
        if rng.random() < 0.3:
            k = rng.choice([2, 3, 3, 4])
            manager = rng.choice(["sums", "contents"])
            mkb = (lambda: sorted(rng.randint(0, 30) for _ in range(k))) if manager == "sums" else (lambda: [[rng.randint(0, 9) for _ in range(rng.choice([0, 1, 2]))] for _ in range(k)])
            judge_comb_interleaved({"kind": "combi", "manager": manager, "pairs": [[mkb(), mkb()] for _ in range(rng.choice([2, 2, 3]))], "seed": rng.randrange(1000)}, ctx)
        t = draw_tree(rng)
        if t["values"] and t["lo"] <= t["hi"]:
            tot = sum(t["values"])
            judge_tree_dynamic({"kind": "treedyn", "values": t["values"], "lo": t["lo"], "hi": t["hi"],
                                "tighten": [[rng.randint(0, 12), min(t["hi"], t["lo"] + rng.randint(1, max(1, tot // 3 + 1)))] for _ in range(rng.randint(1, 3))]}, ctx)
    # (d) in situ
    insitu(spec, rng, ctx, end)


def replay(case, ctx):
    kind = case.get("kind")
    if kind == "lb":
        judge_lb(case, ctx)
    elif kind == "tree":
        judge_tree(case, ctx)
    elif kind == "comb":
        judge_comb(case, ctx)
    elif kind == "treedyn":
        judge_tree_dynamic(case, ctx)
    elif kind == "combi":
        judge_comb_interleaved(case, ctx)
    else:
        from rv.monitors import Contracts
        con = Contracts(mode="record").install()
        try:
            ctx.evaluated()
            C.run_partition_case(case, "Partition", ctx=ctx)
            for b in con.take_broken():
                ctx.violation("insitu:" + b["what"], case["alg"], case, b["witness"])
        finally:
            con.uninstall()
