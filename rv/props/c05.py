"""
C05 — bin-covering results are valid covers that waste less than one bin (DESIGN.md §5 C05).
Deciding monitor: M1 on prtpy.pack(covering.*); oracle: direct recomputation.
"""
import time
from collections import Counter
from rv.props import common as C
from rv import oracles as O

LEVEL = "exploration"
RULE = ("decreasing / two-thirds / three-quarters covers on generated classes (random incl. items > binsize, threshold, toosmall, equal, planted, "
        "docstring worst-case families), n <= 150, list, array, dict and names+valueof presentations; non-trivial = at least one bin covered and "
        "at least one item left over; distinct on (algorithm, binsize, sorted values, presentation kind)")
ASSUMPTIONS = ["positive integer values"]
FLOORS = {"quick": {"distinct_nontrivial": 3000}, "thorough": {"distinct_nontrivial": 15000}}


def plan(tier, seed):
    n = 16 if tier == "quick" else 64
    b = 25 if tier == "quick" else 70
    return [{"seed": seed * 1000 + i, "shard": i, "budget_s": b, "max_cases": 10 ** 7, "watchdog_s": b * 5 + 120} for i in range(n)]


def judge(case, ctx):
    alg, Cs = case["alg"], case["C"]
    ctx.evaluated()
    r, names, vmap = C.run_pack_case(case, "PartitionAndSumsTuple", ctx=ctx)
    if r.timeout:
        ctx.inconc("timeout", case)
        return
    if r.exc is not None or r.raw_none:
        w = C.exc_witness(r, case) if r.exc is not None else {}
        w["names_differ_from_values"] = vmap is not None
        ctx.violation("exception" if r.exc is not None else "none_result", alg, case, w)
        return
    sums, lists = r.value
    w = {"binsize": Cs, "bins": [[str(x) for x in b] for b in lists][:12], "pres": case["pres"]}
    flat = Counter(O._key(x) for b in lists for x in b)
    want = Counter(map(O._key, names))
    if flat - want:
        ctx.violation("item_used_twice_or_invented", alg, case, dict(w, extra=[str(k) for k in (flat - want).elements()][:6]))
        return
    for i, b in enumerate(lists):
        tot = sum(C.value_of(x, vmap) for x in b)
        if tot < Cs:
            ctx.violation("bin_not_covered", alg, case, dict(w, bin=i, total=tot))
            return
        if float(sums[i]) != float(tot):
            ctx.violation("reported_sum_differs", alg, case, dict(w, bin=i, reported=float(sums[i]), total=tot))
            return
    used = sum(C.value_of(x, vmap) for b in lists for x in b)
    unused = sum(case["values"]) - used
    if unused >= Cs:
        ctx.violation("unused_items_could_cover_a_bin", alg, case, dict(w, unused_total=unused))
        return
    left_over = len(names) - sum(len(b) for b in lists)
    ctx.held(key=(alg, Cs, tuple(sorted(case["values"])), case["pres"][:4]), nontrivial=len(lists) >= 1 and left_over >= 1,
             cls=f"{alg}/{case['cls']}", sample={"case": case, "bins": w["bins"][:6], "unused_total": unused})
    ctx.counters["alg:" + alg] += 1
    ctx.counters["pres:" + case["pres"]] += 1


def run_shard(spec, rng, ctx):
    end = C.budget(spec)
    i = 0
    while i < spec["max_cases"] and C.now() < end:
        judge(C.draw_cover_case(rng, alg=C.COVERERS[i % 3]), ctx)
        i += 1


def replay(case, ctx):
    judge(case, ctx)
