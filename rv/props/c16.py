"""
C16 — bins-manager operations keep sums and contents consistent, copies independent (DESIGN.md §5 C16).
Deciding monitor: M3 shadow model. A script of operations (pure data, generated from the shadow model alone) is executed on the real BinnerKeepingSums /
BinnerKeepingContents; after EVERY operation every live bins-array is compared with its shadow (sums exactly; contents per bin as multisets), and the arguments that the
documentation declares unmodified are compared with their pre-call snapshot. Arrays handed to add_empty / remove / concatenate are retired (hand-over discipline).
"""
import itertools, time, copy
from collections import Counter
from fractions import Fraction as F
import numpy as np
from rv.props import common as C

LEVEL = "exploration"
RULE = ("random operation scripts (length <= 40) over a pool of live arrays (0-4 bins, occasionally 17-257 bins) with operations new / add (positive and negative index) / copy / sort / add_empty / remove / concatenate / combine / "
        "numbins / numitems / sums / a failing add (an item whose value function raises: every array must stay as it was), items with zero, repeated and dyadic values: numbers, names with a value table, plain objects tracked by identity, and (name, value) tuples; plus bounded-exhaustive scripts: every sequence of <= 4 operations over a 9-operation alphabet "
        "(thorough: <= 5) for both managers; non-trivial = script contains a copy followed by a mutation of either side and a sort of an array with distinct sums; distinct on the script")
ASSUMPTIONS = ["arrays handed to add_empty / remove / concatenate are used only through the returned array afterwards (the discipline stated in the property)",
               "combine is never called with the same array on both sides (no algorithm does)"]
FLOORS = {"quick": {"distinct_nontrivial": 3000, "operations": 300000}, "thorough": {"distinct_nontrivial": 15000, "operations": 1500000}}


def plan(tier, seed):
    n = 16 if tier == "quick" else 48
    b = 20 if tier == "quick" else 70
    return [{"seed": seed * 1000 + i, "shard": i, "nshards": n, "budget_s": b, "exh_len": 4 if tier == "quick" else 5, "watchdog_s": b * 6 + 200} for i in range(n)]


class Item:
    """A plain, non-atomic item object (copy.deepcopy would clone it)."""
    def __init__(self, name, value):
        self.name, self.value = name, value

    def __repr__(self):
        return f"Item({self.name})"


class Mismatch(Exception):
    def __init__(self, kind, witness):
        self.kind, self.witness = kind, witness


def fx(x):
    return F(float(x))


def run_script(script, ctx=None):
    """Execute a script on the real manager with the shadow model alongside. Raises Mismatch on the first refuting observation."""
    A = C.algos()
    contents = script["manager"] == "contents"
    vmap = script.get("vmap") or {}
    objects = bool(script.get("objects"))
    if objects:
        # items are plain (non-atomic) objects; the script refers to them by name, the model tracks IDENTITY: a bin must record the very objects that were added
        objs = {k: Item(k, v) for k, v in vmap.items()}
        key_of = {id(o): k for k, o in objs.items()}
        real = objs.__getitem__
        keyf = lambda o: key_of.get(id(o), "<foreign object %r>" % (o,))
        valueof = lambda o: o.value
    elif script.get("tuples"):
        # items are (name, value) tuples - sequences, which array-based shortcuts may unpack; the model refers to them by name
        real = lambda k: (k, vmap[k])
        keyf = lambda o: o[0] if (isinstance(o, tuple) and len(o) == 2 and o[0] in vmap and o[1] == vmap[o[0]]) else "<not the item that was added: %r>" % (o,)
        valueof = lambda o: o[1]
    else:
        real = lambda k: k
        keyf = lambda o: o
        valueof = (lambda x: vmap[x]) if script.get("named") else (lambda x: x)
    binner = (A.prtpy.BinnerKeepingContents if contents else A.prtpy.BinnerKeepingSums)(valueof)
    val = lambda x: F(vmap[x]) if (script.get("named") or objects or script.get("tuples")) else F(x)
    live = {}      # id -> real array
    shadow = {}    # id -> list of lists of items
    nxt = 0
    nops = 0

    def snap(arr):
        if contents:
            return ([fx(s) for s in arr[0]], [[keyf(x) for x in b] for b in arr[1]])
        return [fx(s) for s in arr]

    def check_all(step, op):
        for i, arr in live.items():
            sh = shadow[i]
            sums = list(binner.sums(arr))
            if binner.numbins(arr) != len(sh):
                raise Mismatch("numbins_differs_from_model", {"step": step, "op": op, "array": i, "numbins": int(binner.numbins(arr)), "model_bins": len(sh)})
            if len(sums) != len(sh) or any(fx(s) != sum(map(val, b)) for s, b in zip(sums, sh)):
                raise Mismatch("sums_differ_from_model", {"step": step, "op": op, "array": i, "sums": [float(s) for s in sums], "model": [[str(x) for x in b] for b in sh]})
            if contents:
                lists = arr[1]
                if len(lists) != len(sh) or any(Counter(repr(keyf(x)) for x in a) != Counter(map(repr, b)) for a, b in zip(lists, sh)):
                    raise Mismatch("contents_differ_from_model", {"step": step, "op": op, "array": i, "lists": [[str(keyf(x)) for x in b] for b in lists], "model": [[str(x) for x in b] for b in sh]})

    for step, op in enumerate(script["ops"]):
        name = op[0]
        nops += 1
        if name == "new":
            live[nxt] = binner.new_bins(op[1]); shadow[nxt] = [[] for _ in range(op[1])]; nxt += 1
        elif name == "add":
            _, a, item, idx = op
            binner.add_item_to_bin(live[a], real(item), idx)
            shadow[a][idx].append(item)
        elif name == "add_unknown":
            # an item whose value function raises (a name the value map does not know): the call fails, and a failing call must leave every array as it was -
            # sums still describe the recorded items (checked against the model, which records nothing, by check_all below)
            _, a, idx = op
            try:
                binner.add_item_to_bin(live[a], "<unknown item>", idx)
                raise Mismatch("add_of_an_item_without_a_value_did_not_fail", {"step": step, "op": op})
            except Mismatch:
                raise
            except Exception:
                pass
        elif name == "copy":
            a = op[1]
            before = snap(live[a])
            live[nxt] = binner.copy_bins(live[a]); shadow[nxt] = [list(b) for b in shadow[a]]; nxt += 1
            if snap(live[a]) != before:
                raise Mismatch("copy_modified_its_argument", {"step": step, "op": op})
        elif name == "sort":
            a = op[1]
            arr = live[a]
            pairs_before = Counter((fx(s), tuple(sorted(map(repr, b)))) for s, b in zip(binner.sums(arr), shadow[a])) if True else None
            binner.sort_by_ascending_sum(arr)
            sums = [fx(s) for s in binner.sums(arr)]
            if any(sums[i] > sums[i + 1] for i in range(len(sums) - 1)):
                raise Mismatch("sort_left_sums_decreasing", {"step": step, "op": op, "sums": list(map(float, sums))})
            if contents:
                pairs_after = Counter((s, tuple(sorted(repr(keyf(x)) for x in b))) for s, b in zip(sums, arr[1]))
                if pairs_after != pairs_before:
                    raise Mismatch("sort_changed_the_pairs_sum_contents", {"step": step, "op": op, "after": [[float(s), list(map(str, b))] for s, b in zip(sums, arr[1])]})
                shadow[a] = [[keyf(x) for x in b] for b in arr[1]]
            else:
                if Counter(sums) != Counter(s for s, _ in pairs_before.elements()):
                    raise Mismatch("sort_changed_the_sums", {"step": step, "op": op, "sums": list(map(float, sums))})
                shadow[a] = sorted(shadow[a], key=lambda b: sum(map(val, b)))
        elif name in ("add_empty", "remove"):
            _, a, m = op
            before = snap(live[a])
            out = binner.add_empty_bins(live[a], m) if name == "add_empty" else binner.remove_bins(live[a], m)
            if snap(live[a]) != before:
                raise Mismatch(name + "_modified_its_argument", {"step": step, "op": op})
            sh = shadow.pop(a)
            del live[a]                                   # hand-over: the argument is retired
            live[nxt] = out
            shadow[nxt] = (sh + [[] for _ in range(m)]) if name == "add_empty" else sh[:len(sh) - m]
            nxt += 1
        elif name == "concat":
            _, a, b = op
            ba, bb = snap(live[a]), snap(live[b])
            out = binner.concatenate_bins(live[a], live[b])
            if snap(live[a]) != ba or snap(live[b]) != bb:
                raise Mismatch("concatenate_modified_an_argument", {"step": step, "op": op})
            sa, sb = shadow.pop(a), shadow.pop(b)
            del live[a], live[b]
            live[nxt] = out; shadow[nxt] = sa + sb; nxt += 1
        elif name == "combine":
            _, a, i, b, j = op
            bb = snap(live[b])
            binner.combine_bins(live[a], i, live[b], j)
            if snap(live[b]) != bb:
                raise Mismatch("combine_modified_its_second_argument", {"step": step, "op": op})
            shadow[a][i] = shadow[a][i] + list(shadow[b][j])
        elif name == "numitems":
            _, a, i = op
            if contents:
                n = binner.numitems(live[a], i)
                if n != len(shadow[a][i]):
                    raise Mismatch("numitems_differs_from_model", {"step": step, "op": op, "got": int(n), "model": len(shadow[a][i])})
            else:
                try:
                    n = binner.numitems(live[a], i)
                    raise Mismatch("sums_only_manager_counted_items", {"step": step, "op": op, "got": repr(n)})
                except NotImplementedError:
                    pass
        else:
            raise KeyError(name)
        check_all(step, op)
    return nops


def judge(script, ctx):
    ctx.evaluated()
    try:
        nops = run_script(script, ctx)
    except Mismatch as m:
        ctx.violation(m.kind, script["manager"], script, m.witness)
        return
    except Exception as e:
        import traceback
        ctx.violation("exception", script["manager"], script, {"exc": repr(e)[:200], "tb": traceback.format_exc()[-500:]})
        return
    ctx.counters["operations"] += nops
    ctx.held(key=(script["manager"], repr(script["ops"]), repr(script.get("vmap"))), nontrivial=script.get("nontrivial", False), cls=script["manager"] + "/" + script.get("cls", "random"),
             sample={"manager": script["manager"], "ops": script["ops"][:25], "vmap": script.get("vmap")})


def gen_script(rng, manager, maxlen=40):
    """Generate a script from the shadow model alone (tracks sizes, contents, liveness)."""
    kind = rng.choice(["numbers", "names", "objects", "tuples"])
    named = kind != "numbers"
    vmap = {}
    pool_vals = [0, 0, 1, 2, 3, 3, 5, 8, 13, 0.5, 2.25, 20, 2 ** 40, 10 ** 12 + 1]   # all sums stay exact in float64 (<= 40 integer bits + 2 fractional bits)
    cnt = [0]

    def new_item():
        v = rng.choice(pool_vals)
        if named:
            nm = f"p{cnt[0]}"; cnt[0] += 1; vmap[nm] = v
            return nm, v
        return v, v
    sizes, sums, live = {}, {}, []
    ops = []
    nxt = 0
    copied_then_mutated = False
    sorted_distinct = False
    copies = {}       # id -> partner id
    for _ in range(rng.randint(3, maxlen)):
        choices = ["new"] if len(live) < 4 else []
        if live:
            choices += ["add"] * 6 + ["copy", "sort", "sort", "add_empty", "remove", "numitems"]
        if len(live) >= 2:
            choices += ["concat", "combine", "combine"]
        name = rng.choice(choices)
        if name == "new":
            k = rng.choice([0, 1, 2, 2, 3, 3, 4])
            if rng.random() < 0.06:
                k = rng.choice([17, 33, 65, 101, 129, 257])       # arrays larger than typical internal thresholds (a different code path may take over)
            ops.append(["new", k]); sizes[nxt] = k; sums[nxt] = [F(0)] * k; live.append(nxt); nxt += 1
            continue
        a = rng.choice(live)
        if name == "add" and kind == "names" and sizes[a] and rng.random() < 0.05:
            ops.append(["add_unknown", a, rng.randrange(sizes[a])])
            continue
        if name == "add":
            if sizes[a] == 0:
                continue
            item, v = new_item()
            idx = rng.randrange(sizes[a]) if rng.random() < 0.7 else -rng.randint(1, sizes[a])
            ops.append(["add", a, item, idx]); sums[a][idx] += F(v)
            if a in copies:
                copied_then_mutated = True
        elif name == "copy":
            ops.append(["copy", a]); sizes[nxt] = sizes[a]; sums[nxt] = list(sums[a]); live.append(nxt)
            copies[a] = nxt; copies[nxt] = a; nxt += 1
        elif name == "sort":
            ops.append(["sort", a])
            if len(set(sums[a])) >= 2 and sums[a] != sorted(sums[a]):
                sorted_distinct = True
            sums[a] = sorted(sums[a])
        elif name in ("add_empty", "remove"):
            m = rng.randint(0, 2) if name == "add_empty" else rng.randint(0, min(2, sizes[a]))
            ops.append([name, a, m]); live.remove(a)
            sizes[nxt] = sizes[a] + m if name == "add_empty" else sizes[a] - m
            sums[nxt] = (sums[a] + [F(0)] * m) if name == "add_empty" else sums[a][:sizes[a] - m]
            live.append(nxt); nxt += 1
        elif name == "concat":
            b = rng.choice([x for x in live if x != a])
            ops.append(["concat", a, b]); live.remove(a); live.remove(b)
            sizes[nxt] = sizes[a] + sizes[b]; sums[nxt] = sums[a] + sums[b]; live.append(nxt); nxt += 1
        elif name == "combine":
            b = rng.choice([x for x in live if x != a])
            if sizes[a] == 0 or sizes[b] == 0:
                continue
            i, j = rng.randrange(sizes[a]), rng.randrange(sizes[b])
            ops.append(["combine", a, i, b, j]); sums[a][i] += sums[b][j]
            if a in copies:
                copied_then_mutated = True
        elif name == "numitems":
            if sizes[a] == 0:
                continue
            ops.append(["numitems", a, rng.randrange(sizes[a])])
    return {"manager": manager, "named": kind == "names", "objects": kind == "objects", "tuples": kind == "tuples", "vmap": vmap, "ops": ops, "nontrivial": copied_then_mutated and sorted_distinct, "cls": "random/" + kind}


def exhaustive_scripts(manager, maxlen, shard, nshards):
    """Every sequence of <= maxlen operations over a small alphabet acting on array 0 (2 bins) and its copies; invalid sequences are skipped by the model."""
    alphabet = [("add", 3, 0), ("add", 1, 1), ("add", 3, -1), ("copy",), ("sort",), ("add_empty", 1), ("remove", 1), ("combine",), ("swapfocus",)]
    idx = 0
    for L in range(1, maxlen + 1):
        for seq in itertools.product(range(len(alphabet)), repeat=L):
            idx += 1
            if idx % nshards != shard:
                continue
            ops = [["new", 2]]
            sizes = {0: 2}
            live = [0]
            focus, nxt, ok = 0, 1, True
            for s in seq:
                a = alphabet[s]
                if a[0] == "add":
                    if sizes[focus] == 0 or (a[2] >= 0 and a[2] >= sizes[focus]):
                        ok = False; break
                    ops.append(["add", focus, a[1], a[2]])
                elif a[0] == "copy":
                    ops.append(["copy", focus]); sizes[nxt] = sizes[focus]; live.append(nxt); nxt += 1
                elif a[0] == "sort":
                    ops.append(["sort", focus])
                elif a[0] == "add_empty":
                    ops.append(["add_empty", focus, 1]); live.remove(focus); sizes[nxt] = sizes[focus] + 1; live.append(nxt); focus = nxt; nxt += 1
                elif a[0] == "remove":
                    if sizes[focus] < 1:
                        ok = False; break
                    ops.append(["remove", focus, 1]); live.remove(focus); sizes[nxt] = sizes[focus] - 1; live.append(nxt); focus = nxt; nxt += 1
                elif a[0] == "combine":
                    others = [x for x in live if x != focus]
                    if not others or sizes[focus] == 0 or sizes[others[-1]] == 0:
                        ok = False; break
                    ops.append(["combine", focus, 0, others[-1], sizes[others[-1]] - 1])
                elif a[0] == "swapfocus":
                    others = [x for x in live if x != focus]
                    if not others:
                        ok = False; break
                    focus = others[-1]
            if ok:
                yield {"manager": manager, "named": False, "vmap": {}, "ops": ops, "nontrivial": any(o[0] == "copy" for o in ops) and any(o[0] == "sort" for o in ops), "cls": "exhaustive"}


def run_shard(spec, rng, ctx):
    end = C.budget(spec)
    for manager in ("sums", "contents"):
        n = 0
        for script in exhaustive_scripts(manager, spec["exh_len"], spec["shard"], spec["nshards"]):
            judge(script, ctx)
            n += 1
        ctx.counters["exhaustive_scripts:" + manager] += n
    ctx.counters["exhaustive_complete_shards"] += 1
    while C.now() < end:
        judge(gen_script(rng, rng.choice(["sums", "contents"])), ctx)


def replay(case, ctx):
    judge(case, ctx)
