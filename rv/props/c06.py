"""
C06 — reported sums and derived outputs always describe the returned bins (DESIGN.md §5 C06).
Deciding monitor: M1; the same call is repeated with each of the ten output types and compared with what rv derives from the
PartitionAndSumsTuple result (Sums as a multiset: bin order is not part of any documented contract).
"""
import time
from collections import Counter
from fractions import Fraction
from rv.props import common as C
from rv import oracles as O
from rv.harness import exact

LEVEL = "exploration"
RULE = ("every algorithm (11 partitioners, 5 packers, 3 coverers; exact ones inside the cost envelope) x generated inputs of the C01/C03/C05 classes; "
        "each case is executed with all 10 output types (every 5th case: ckk / snp / complete greedy on 9-12 items, full partition vs one sums-only type); non-trivial = at least two bins with different sums; distinct on (algorithm, config, size, value sequence)")
ASSUMPTIONS = ["in situ: on every third case the contents-keeping manager's operations are hooked and each bins-array they touch is checked (sum of every bin == total value of its recorded items)", "largest/smallest/extreme/difference are undefined for zero bins and skipped there", "bin-completion with list/array presentation (names: C07)"]
FLOORS = {"quick": {"distinct_nontrivial": 800}, "thorough": {"distinct_nontrivial": 4000}}
SUMS_TYPES = ("Sums", "SortedSums", "LargestSum", "SmallestSum", "ExtremeSums", "Difference", "BinCount")


def plan(tier, seed):
    n = 16 if tier == "quick" else 64
    b = 40 if tier == "quick" else 110
    return [{"seed": seed * 1000 + i, "shard": i, "budget_s": b, "max_cases": 10 ** 7, "watchdog_s": b * 5 + 120} for i in range(n)]


def run(case, ot, ctx):
    if case["kind"] == "partition":
        return C.run_partition_case(case, ot, ctx=ctx, timeout=15)
    return C.run_pack_case(case, ot, ctx=ctx, timeout=15)


def fx(x):
    return Fraction(float(x))


def judge(case, ctx):
    alg = case["alg"]
    ctx.evaluated()
    r, names, vmap = run(case, "PartitionAndSumsTuple", ctx)
    if r.timeout:
        ctx.inconc("timeout:" + alg, case)
        return
    if not r.ok:
        # not this property's business unless the other output types succeed (checked below); record as exception
        ctx.violation("exception", alg, case, C.exc_witness(r, case) if r.exc is not None else {"none": True})
        return
    sums, lists = r.value
    true_sums = [sum(Fraction(C.value_of(x, vmap)) for x in b) for b in lists]
    w = {"bins": [[str(x) for x in b] for b in lists][:10], "reported_sums": [float(s) for s in sums]}
    if len(sums) != len(lists):
        ctx.violation("sums_and_lists_lengths_differ", alg, case, w)
        return
    for i, (s, t) in enumerate(zip(sums, true_sums)):
        if fx(s) != t:
            ctx.violation("reported_sum_differs_from_contents", alg, case, dict(w, bin=i, contents_total=str(t)))
            return
    ms = Counter(true_sums)
    srt = sorted(true_sums)
    expect = {"Sums": ms, "SortedSums": srt, "BinCount": len(lists)}
    if lists:
        expect.update({"LargestSum": srt[-1], "SmallestSum": srt[0], "ExtremeSums": (srt[0], srt[-1]), "Difference": srt[-1] - srt[0]})
    for ot in (case.get("only_types") or (SUMS_TYPES + ("Partition", "PartitionAndSums"))):
        if ot not in expect and ot in SUMS_TYPES:
            continue
        r2, _, _ = run(case, ot, ctx)
        if r2.timeout:
            ctx.inconc("timeout:" + alg, case)
            return
        if not r2.ok:
            ctx.violation("exception_for_output_type", alg, case, dict(C.exc_witness(r2, case), outputtype=ot) if r2.exc is not None else {"outputtype": ot, "none": True})
            return
        v = r2.value
        ok = True
        if ot == "Sums":
            ok = Counter(map(fx, v)) == ms
        elif ot == "SortedSums":
            ok = list(map(fx, v)) == srt
        elif ot == "BinCount":
            ok = int(v) == len(lists)
        elif ot in ("LargestSum", "SmallestSum", "Difference"):
            ok = fx(v) == expect[ot]
        elif ot == "ExtremeSums":
            ok = (fx(v[0]), fx(v[1])) == expect[ot]
        elif ot == "Partition":
            ok = O.canon_bins(v) == O.canon_bins(lists) or Counter(sum(Fraction(C.value_of(x, vmap)) for x in b) for b in v) == ms
        elif ot == "PartitionAndSums":
            ok = len(v.sums) == len(v.lists) and all(fx(s) == sum(Fraction(C.value_of(x, vmap)) for x in b) for s, b in zip(v.sums, v.lists)) \
                 and Counter(map(fx, v.sums)) == ms
        if not ok:
            ctx.violation("output_type_disagrees_with_partition", alg, case, dict(w, outputtype=ot, got=repr(v)[:200], expected=repr(expect.get(ot, "same bins"))[:200]))
            return
    ctx.held(key=(alg, case.get("k", case.get("C")), tuple(case["values"]), tuple(case.get("objective") or ()), case.get("cg_mask")),
             nontrivial=len(ms) >= 2, cls=f"{case['kind']}/{alg}", sample={"case": case, "sums": [float(s) for s in true_sums][:10]})
    ctx.counters["alg:" + alg] += 1


def draw(rng, i):
    if i % 5 == 4:
        # the search algorithms at 9-12 items: the sums-only and the contents-keeping manager are separate code paths inside the searches and must end on the same answer
        # (they de-duplicate differently; a shortcut may be taken on one path only); only the pair (full partition, one sums-only type) is compared to keep the case affordable
        alg = rng.choice(["ckk", "ckk", "snp", "snp", "snp", "cg"])
        k = rng.choice([3, 4, 4]) if alg != "snp" else rng.choice([3, 3, 4])
        n = rng.randint(9, 10 if alg != "cg" else 11) if alg != "snp" else rng.randint(10, 12 if k == 3 else 11)
        top = rng.choice([12, 50, 50, 1000]) if alg != "snp" else rng.choice([20, 20, 30, 50])
        case = {"kind": "partition", "alg": alg, "k": k, "values": [rng.randint(1, top) for _ in range(n)], "cls": "search_9_12_items",
                "pres": "list", "pres_seed": 0, "only_types": [rng.choice(["Sums", "Sums", "SortedSums", "Difference"])]}
        if alg == "cg":
            case["objective"] = [rng.choice(["maxmin", "minmax", "diff"]), None]
            case["cg_mask"] = rng.choice([11, 15, 3, rng.randrange(16)])
        return case
    if i % 10 == 5:
        # bin-completion on inputs where it really searches (best-fit-decreasing not optimal): its search state must not depend on the bins-manager in use
        return C.draw_pack_case(rng, alg="bc", cls=rng.choice(["hardpack", "hardpack", "repeat", "repeat_large"]), pres=rng.choice(["list", "array", "dict_str"]), nmax=12)
    which = i % 19
    if which < 11:
        case = C.draw_partition_case(rng, alg=C.ALL_PART[which], pres=rng.choice(["list", "list", "array", "dict_str", "names_int"]))
        # keep the exact algorithms cheap: 10 calls per case
        if case["alg"] in ("ckk", "snp", "rnp", "dp", "ilp") and len(case["values"]) > 7:
            case["values"] = case["values"][:7]
        return case
    if which < 16:
        alg = C.PACKERS[which - 11]
        return C.draw_pack_case(rng, alg=alg, pres=None if alg != "bc" else rng.choice(["list", "array"]))
    return C.draw_cover_case(rng, alg=C.COVERERS[which - 16])


def run_shard(spec, rng, ctx):
    from rv.monitors import BinsInvariant
    end = C.budget(spec)
    i = 0
    inv = BinsInvariant()
    while i < spec["max_cases"] and C.now() < end:
        case = draw(rng, i)
        if i % 3 == 0:
            # in situ (M3 at the manager's own operations): every intermediate bins-array the real algorithm builds must have sums that describe its contents
            inv.install()
            try:
                judge(case, ctx)
            finally:
                inv.uninstall()
            for b in inv.take_broken():
                ctx.violation("insitu_bins_array_inconsistent", case["alg"], case, b)
            ctx.counters["insitu_monitored_cases"] += 1
        else:
            judge(case, ctx)
        i += 1
    ctx.counters["insitu_bins_arrays_checked"] += sum(inv.checked.values())
    ctx.reach.update({"binsinvariant." + k: v for k, v in inv.checked.items()})


def replay(case, ctx):
    from rv.monitors import BinsInvariant
    inv = BinsInvariant().install()
    try:
        judge(case, ctx)
    finally:
        inv.uninstall()
    for b in inv.take_broken():
        ctx.violation("insitu_bins_array_inconsistent", case["alg"], case, b)
