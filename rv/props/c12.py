"""
C12 — balanced 2-way partitioning obeys the cardinality bound and is optimal under it (DESIGN.md §5 C12).
Deciding monitor: M1 on prtpy.partition(cbldm); oracle O4 (subset sums grouped by cardinality). M6 probes count prunes (evidence).
"""
import time
from rv.props import common as C
from rv import oracles as O, gen

LEVEL = "exploration"
RULE = ("bounded-exhaustive: every multiset of 1..7 (thorough 8) items over 0..4 x bounds {1,2,3,default} (completion reported as grid_exhaustive_complete_shards); then cbldm on n = 1..14 (thorough 16) non-negative integers (zeros, repeats, all-ones, ties, random up to 500; 30% of the cases are 8..13 items up to 20..60 with bound 1..3, where a binding bound makes the search matter most), cardinality bound d in {1,2,3,n,default}, list / array / dict / names presentations; "
        "checks: two bins holding every name exactly once, |#A-#B| <= d, |sum A - sum B| equals the optimum under d; non-trivial = constrained optimum differs from the unconstrained one, "
        "or n >= 6 with d = 1; distinct on (d, sorted values)")
ASSUMPTIONS = ["no time limit", "O4 enumerates achievable subset sums per cardinality"]
FLOORS = {"quick": {"distinct_nontrivial": 3000}, "thorough": {"distinct_nontrivial": 15000}}


def plan(tier, seed):
    n = 16 if tier == "quick" else 64
    b = 30 if tier == "quick" else 90
    return [{"seed": seed * 1000 + i, "shard": i, "nshards": n, "budget_s": b, "nmax": 14 if tier == "quick" else 16, "watchdog_s": b * 6 + 200} for i in range(n)]


def judge(case, ctx):
    ctx.evaluated()
    vals, d = case["values"], case.get("cbldm_d")
    r, names, vmap = C.run_partition_case(case, ctx=ctx, timeout=30)
    if r.timeout:
        ctx.inconc("timeout", case)
        return
    if not r.ok:
        ctx.violation("exception" if r.exc is not None else "none_result", "cbldm", case, C.exc_witness(r, case) if r.exc is not None else {})
        return
    bad = C.check_partition_result(r.value, names, vmap, 2, "cbldm")
    if bad:
        ctx.violation(bad[0], "cbldm", case, bad[1])
        return
    sums, lists = r.value
    bv = C.bins_values(lists, vmap)
    w = {"bins": [list(map(str, b)) for b in lists], "bound": d}
    if d is not None and abs(len(lists[0]) - len(lists[1])) > d:
        ctx.violation("cardinality_bound_violated", "cbldm", case, w)
        return
    got = abs(sum(bv[0]) - sum(bv[1]))
    opt = O.two_way_card_opt(vals, d)
    free = O.two_way_card_opt(vals, None)
    if got != opt:
        ctx.violation("not_optimal_under_the_bound", "cbldm", case, dict(w, got=got, opt=opt, unconstrained_opt=free))
        return
    ctx.held(key=(d, tuple(sorted(vals))), nontrivial=(opt != free) or (d == 1 and len(vals) >= 6), cls=f"cbldm/{case['cls']}/d={'default' if d is None else ('n' if d == len(vals) and d > 3 else d)}",
             sample={"case": case, "difference": got, "unconstrained_opt": free})
    if opt != free:
        ctx.counters["bound_binding"] += 1


def draw(rng, nmax):
    if rng.random() < 0.3:
        # volume on the region where a binding bound makes the search matter most: 8..13 small-to-medium items, bound 1 (mostly) - pruning rules that are sound for the
        # unconstrained problem but not under the bound show only here, and rarely
        n = rng.randint(8, min(13, nmax))
        vals = [rng.randint(rng.choice([0, 1]), rng.choice([20, 30, 30, 60])) for _ in range(n)]
        return {"kind": "partition", "alg": "cbldm", "k": 2, "values": vals, "cls": "mid_binding", "cbldm_d": rng.choice([1, 1, 1, 2, 3]), "pres": "list", "pres_seed": 0}
    n = rng.randint(1, nmax) if rng.random() < 0.6 else rng.randint(max(1, nmax - 4), nmax)
    cls = rng.choice(["random", "random", "zeros", "repeats", "ones", "ties", "skewed", "big", "bigties", "bignear", "pool", "pool", "pool", "bigtiny", "bigtiny"])
    if cls == "pool":
        # many items over 3-5 distinct values with a binding bound: arithmetic coincidences between different groupings (memo / pruning defects show here)
        n = rng.randint(min(11, nmax), nmax)
        pool = rng.sample(range(1, 16), rng.randint(3, 5))
        vals = [rng.choice(pool) for _ in range(n)]
    elif cls == "bigtiny":
        # a few big items and a few tiny ones: the tiny items cannot make up for a big item placed wrongly (almost-valid pruning rules fail here)
        vals = [rng.randint(20, 100) for _ in range(rng.randint(3, 7))] + [rng.randint(1, 8) for _ in range(rng.randint(2, 5))]
        rng.shuffle(vals)
        n = len(vals)
    elif cls == "big":
        vals = [rng.randint(0, rng.choice([10 ** 9, 10 ** 12, 2 ** 48])) for _ in range(n)]
    elif cls == "bignear":
        vals = gen.part_values(rng, "bignear", n, 2)
    elif cls == "bigties":
        base = rng.choice([10 ** 9, 10 ** 12, 2 ** 40])
        vals = [base * rng.randint(1, 3) + rng.choice([0, 0, 1, -1]) for _ in range(n)]
    elif cls == "random":
        vals = [rng.randint(0, rng.choice([3, 20, 500])) for _ in range(n)]
    elif cls == "zeros":
        vals = [rng.choice([0, 0, rng.randint(1, 20)]) for _ in range(n)]
    elif cls == "repeats":
        pool = [rng.randint(1, 30) for _ in range(2)]
        vals = [rng.choice(pool) for _ in range(n)]
    elif cls == "ones":
        vals = [1] * n
    elif cls == "ties":
        vals = gen.part_values(rng, "ties", n, 2)
    else:
        vals = [rng.randint(1, 5) for _ in range(n)]
        vals[rng.randrange(n)] = rng.randint(20, 200)        # one huge item: the cardinality bound binds
    d = rng.choice([None, 1, 1, 2, 3, n, max(1, n - 1), n + 1, 100]) if cls != "pool" else rng.choice([1, 1, 2, 3])
    return {"kind": "partition", "alg": "cbldm", "k": 2, "values": vals, "cls": cls, "cbldm_d": d,
            "pres": rng.choice(["list", "list", "array", "dict_str", "names_int"]), "pres_seed": rng.randrange(1 << 30)}


def run_shard(spec, rng, ctx):
    from rv.monitors import standard_probes
    probes = standard_probes().start()
    end = C.budget(spec)
    try:
        # bounded-exhaustive small scope: every multiset of 1..7 (thorough 8) items over 0..4 x every bound in {1,2,3,default} (at most 30% of the budget)
        grid_end = C.now() + 0.3 * float(spec.get("budget_s", 60))
        complete = True
        for ms in C.sharded(C.multisets(range(0, 5), 8 if spec.get("tier") == "thorough" else 7), spec):
            if C.now() > grid_end:
                complete = False
                break
            for d in (1, 2, 3, None):
                judge({"kind": "partition", "alg": "cbldm", "k": 2, "values": list(ms), "cls": "grid_exhaustive", "cbldm_d": d, "pres": "list", "pres_seed": 0}, ctx)
            ctx.counters["grid_exhaustive_instances"] += 1
        ctx.counters["grid_exhaustive_complete_shards"] += int(complete)
        while C.now() < end:
            judge(draw(rng, spec["nmax"]), ctx)
    finally:
        probes.stop()
    ctx.reach.update({k: v for k, v in probes.counts.items() if k.startswith("cbldm.")})


def replay(case, ctx):
    judge(case, ctx)
