"""
Shared case model for the property workloads: a *case* is pure JSON-able data describing one monitored call
(algorithm, size, values, presentation, configuration); run_case() performs it through the real adaptor under M1.
"""
import random, time
from collections import Counter
from fractions import Fraction
from rv import gen, oracles as O
from rv.harness import (Algos, monitored_call, present, exact, plain, cg_config, max_n, CaseTimeout, value_of)

_A = None


def algos():
    global _A
    if _A is None:
        _A = Algos()
    return _A


EXACT_ALGS = ("dp", "ilp", "cg", "ckk", "snp", "rnp")
HEURISTICS = ("greedy", "roundrobin", "multifit", "kk")
ALL_PART = HEURISTICS + EXACT_ALGS + ("cbldm",)
PACKERS = ("ff", "ffd", "bf", "bfd", "bc")
COVERERS = ("decreasing", "twothirds", "threequarters")
PRESENTATIONS = ("list", "array", "dict_str", "names_str", "names_int", "dict_int_disjoint", "dict_int_overlap", "dict_enum", "dict_sub")
OBJ5 = ("maxmin", "minmax", "diff", "ksmall", "klarge")


_T0 = (time.process_time(), time.time())
WALL_STRETCH = 2.5


def now():
    """
    Shard clock: CPU seconds of this worker, so that a loaded machine costs wall-clock time instead of coverage; bounded below by wall-clock/2.5 so that a
    shard that is starved (or waits on something) still ends within 2.5 x its budget.
    """
    return max(time.process_time() - _T0[0], (time.time() - _T0[1]) / WALL_STRETCH)


def sharded(iterable, spec):
    """The slice of a deterministic enumeration that belongs to this shard (every shard count covers the whole enumeration exactly once)."""
    n, i = int(spec.get("nshards", 1)), int(spec.get("shard", 0))
    for idx, x in enumerate(iterable):
        if idx % n == i:
            yield x


def multisets(alphabet, maxlen, minlen=1):
    import itertools
    for n in range(minlen, maxlen + 1):
        yield from itertools.combinations_with_replacement(alphabet, n)


def budget(spec):
    """Deadline on the shard clock now() after which a shard stops drawing new cases."""
    return now() + float(spec.get("budget_s", 60))


# ------------------------------------------------------------------ partition cases
def draw_k_n(rng, alg, cls):
    """Draw (k, n) inside the cost envelope of DESIGN §1."""
    if alg == "cbldm":
        return 2, rng.randint(1, 12)
    big = cls in ("big", "huge", "bignear")
    if alg in ("greedy", "roundrobin", "multifit", "kk"):
        k = rng.choice([1, 2, 2, 3, 3, 4, 5, 7, 9, 12, 20, 30] * 3 + [33, 65, 129, 257]) if rng.random() < 0.8 else rng.randint(1, rng.choice([16, 40, 300]))    # any count, not only a menu
        n = rng.choice([rng.randint(1, 12), rng.randint(1, 12), rng.randint(13, 60), rng.randint(61, 300)])
        if cls == "kgtn":
            n = rng.randint(1, max(1, k - 1)) if k > 1 else 1
        return k, n
    kmax = 7 if alg == "ckk" else 9
    if alg == "rnp":
        kmax = 5        # numbins >= 6 is the known-finding region (KF-rnp-k6); exercised only by its replay
    if cls == "kgtn":
        k = rng.randint(2, kmax)
        n = rng.randint(1, min(k - 1, max_n(alg, k, big)))
        return k, n
    k = rng.choice([1, 2, 2, 3, 3, 3, 4, 4, 5, 5, 6, 7][: (12 if kmax >= 7 else 10)])
    k = min(k, kmax)
    n = rng.randint(1, max_n(alg, k, big))
    if alg == "ilp" and cls == "big":
        cls = "small"
    return k, n


def big_cls(cls):
    return cls in ("big", "huge", "bignear")


def draw_partition_case(rng, alg=None, cls=None, pres=None, algs=ALL_PART, classes=None):
    alg = alg or rng.choice(algs)
    classes = classes or ("small", "zeros", "equal", "ties", "kgtn", "big", "huge", "bignear", "grid", "perfect", "powers", "onehuge")
    cls = cls or rng.choice(classes)
    if alg == "ilp" and cls in ("big", "huge", "bignear", "powers", "onehuge", "perfect", "nearperfect"):
        cls = "small"
    k, n = draw_k_n(rng, alg, cls)
    values = gen.part_values(rng, cls, n, k)
    if alg == "ilp":
        values = [min(v, 200) for v in values]
    if alg in ("dp",) and big_cls(cls):
        values = values[:6]
    if alg in EXACT_ALGS and len(values) > max_n(alg, k, big_cls(cls)):
        values = values[:max_n(alg, k, big_cls(cls))]
    case = {"kind": "partition", "alg": alg, "k": k, "values": values, "cls": cls,
            "pres": pres or rng.choice(PRESENTATIONS), "pres_seed": rng.randrange(1 << 30)}
    if alg == "cg":
        case["objective"] = [rng.choice(OBJ5), None]
        case["cg_mask"] = rng.randrange(16)
    elif alg in ("dp", "ilp"):
        case["objective"] = [rng.choice(OBJ5), None]
    if "objective" in case and case["objective"][0] in ("ksmall", "klarge"):
        case["objective"][1] = rng.randint(1, k + 1)
    if alg == "multifit":
        case["iterations"] = rng.choice([1, 2, 3, 5, 10, 20]) if rng.random() < 0.7 else rng.randint(1, 30)
    if alg == "cbldm":
        case["cbldm_d"] = rng.choice([None, None, 1, 2, 3, len(values), rng.randint(1, len(values) + 2)])
    return case


def partition_kwargs(case):
    A = algos()
    kw = {}
    if "objective" in case and case["objective"] is not None:
        name, kp = case["objective"]
        kw["objective"] = A.objective(name, kp, case=case)
    if case["alg"] == "cg" and "cg_mask" in case:
        kw.update(cg_config(case["cg_mask"]))
    if case.get("iterations") is not None:
        kw["iterations"] = case["iterations"]
    if case.get("cbldm_d") is not None:
        kw["partition_difference"] = case["cbldm_d"]
    for extra in ("copies", "weights"):
        if case.get(extra) is not None:
            kw[extra] = case[extra]
    return kw


def run_partition_case(case, outputtype="PartitionAndSumsTuple", ctx=None, timeout=20.0, pres=None):
    """Perform the call. Returns (Ret, names, vmap)."""
    A = algos()
    prng = random.Random(case.get("pres_seed", 0))
    items, valueof, names, vmap = present(case["values"], pres or case.get("pres", "list"), prng)
    r = monitored_call(A.prtpy.partition, A.partitioners[case["alg"]], case["k"], items, valueof,
                       A.outputtypes[outputtype], timeout=timeout, ctx=ctx, **partition_kwargs(case))
    return r, names, vmap


def exc_witness(r, case):
    return {"exc_type": type(r.exc).__name__, "exc": r.tb, "tb_funcs": list(r.tb_funcs),
            "numbins": case.get("k"), "n": len(case.get("values", []))}


def bins_values(lists, vmap):
    """Exact values of the items in each bin, as plain Python numbers (never numpy scalars: the oracle's arithmetic must not inherit a fixed-width dtype)."""
    return [[value_of(x, vmap) for x in b] for b in lists]


def check_partition_result(value, names, vmap, k, alg):
    """
    Judge a PartitionAndSumsTuple result against C01's statement. Returns (kind, witness) or None.
    """
    try:
        sums, lists = value
        lists = [list(b) for b in lists]
    except Exception:
        return "malformed_result", {"value": repr(value)[:200]}
    nb = len(lists)
    if alg == "multifit":
        if nb > k:
            return "too_many_bins", {"bins": nb, "numbins": k}
    elif nb != k:
        return "wrong_bin_count", {"bins": nb, "numbins": k}
    if not O.is_partition_of(lists, names):
        w = O.multiset_diff(lists, names)
        w["bins"] = [list(map(str, b)) for b in lists][:12]
        return "not_a_partition", w
    return None


def sums_of(value):
    sums, lists = value
    return [exact(s) for s in sums]


# ------------------------------------------------------------------ pack / cover cases
def draw_pack_case(rng, alg=None, cls=None, pres=None, algs=PACKERS, nmax=None, frac_ok=True):
    alg = alg or rng.choice(algs)
    if alg == "bc":
        cls = cls or rng.choice(["hardpack", "hardpack", "repeat", "repeat", "threshold", "random", "zeros", "equal", "planted"])
        C, v = gen.pack_instance(rng, cls, nmax or 11)
        order = rng.choice(gen.ORDERS)
        case = {"kind": "pack", "alg": alg, "C": C, "values": gen.arrange(rng, v, order), "cls": cls, "order": order}
    else:
        cls = cls or rng.choice(["random", "hardpack", "repeat", "threshold", "zeros", "equal", "planted", "widerange"])
        C, v = gen.pack_instance(rng, cls, nmax or rng.choice([8, 12, 40, 150]))
        order = rng.choice(gen.ORDERS)
        v = gen.arrange(rng, v, order)
        case = {"kind": "pack", "alg": alg, "C": C, "values": v, "cls": cls, "order": order}
        if frac_ok and cls == "widerange" and C & (C - 1) == 0 and rng.random() < 0.5:
            # bin size 1 with items down to 2^-50: exactly representable dyadic fractions
            case["C"] = 1.0
            case["values"] = [x / C for x in v]
            case["dyadic"] = C
        elif frac_ok and cls != "widerange" and rng.random() < 0.2:
            d = 2 ** rng.randint(1, 6)
            case["C"] = C / d
            case["values"] = [x / d for x in v]
            case["dyadic"] = d
    case["pres"] = pres or rng.choice(PRESENTATIONS)
    if case.get("dyadic") and case["pres"] == "array":
        case["pres"] = "list"
    case["pres_seed"] = rng.randrange(1 << 30)
    return case


def draw_cover_case(rng, alg=None, cls=None, pres=None, nmax=None):
    alg = alg or rng.choice(COVERERS)
    cls = cls or rng.choice(["random", "threshold", "toosmall", "equal", "planted", "worst", "widerange", "allbig"])
    C, v = gen.cover_instance(rng, cls, nmax or rng.choice([8, 12, 40, 150]))
    order = rng.choice(gen.ORDERS)
    return {"kind": "cover", "alg": alg, "C": C, "values": gen.arrange(rng, v, order), "cls": cls, "order": order,
            "pres": pres or rng.choice(PRESENTATIONS), "pres_seed": rng.randrange(1 << 30)}


def run_pack_case(case, outputtype="PartitionAndSumsTuple", ctx=None, timeout=20.0, pres=None):
    A = algos()
    prng = random.Random(case.get("pres_seed", 0))
    pr = pres or case.get("pres", "list")
    vals = case["values"]
    if pr == "array" and any(isinstance(x, float) and not float(x).is_integer() for x in vals):
        pr = "list"
    items, valueof, names, vmap = present(vals, pr, prng)
    table = A.packers if case["kind"] == "pack" else A.coverers
    r = monitored_call(A.prtpy.pack, table[case["alg"]], case["C"], items, valueof,
                       A.outputtypes[outputtype], timeout=timeout, ctx=ctx)
    return r, names, vmap


def fr(x):
    """Exact rational of an int / exactly-representable float."""
    return Fraction(x)


def canon_case_key(case, *extra):
    return (case.get("alg"), case.get("k", case.get("C")), tuple(sorted(map(float, case["values"]))),
            tuple(case.get("objective") or ()), case.get("cg_mask"), case.get("iterations"), case.get("cbldm_d"), *extra)
