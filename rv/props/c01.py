"""
C01 — every partitioner returns a true partition into the requested number of bins (DESIGN.md §5 C01).
Deciding monitor: M1 boundary recorder on prtpy.partition; oracle: multiset comparison on names + bin count.
"""
import time
from rv.props import common as C

LEVEL = "exploration"
RULE = ("cases drawn per (algorithm x input class x presentation x configuration) inside the cost envelope; "
        "complete greedy with all 16 switch masks x 5 objectives, dp/ilp x 5 objectives, cbldm numbins=2; "
        "per rotation step also 6 cheap-heuristic cases (multifit mostly; 1-14 items up to 12..100, 1-5 bins), zero-valued items inside the searches, nested searches on one manager, cbldm at its stack limit; "
        "non-trivial = n >= 2 and numbins >= 2; distinct on (algorithm, config, sorted values, numbins, presentation)")
ASSUMPTIONS = ["values are non-negative ints with totals < 2^53", "rnp with numbins >= 6 only via the known-finding replay",
               "an exception on an in-quantifier input counts as a violation (DESIGN §3)"]
FLOORS = {"quick": {"distinct_nontrivial": 1500}, "thorough": {"distinct_nontrivial": 8000}}

CLASSES = ("small", "zeros", "equal", "ties", "kgtn", "big", "huge", "bignear", "grid", "perfect", "powers", "onehuge")


def plan(tier, seed):
    n = 16 if tier == "quick" else 64
    b = 35 if tier == "quick" else 100
    return [{"seed": seed * 1000 + i, "shard": i, "budget_s": b, "max_cases": 6000 if tier == "quick" else 40000,
             "watchdog_s": b * 6 + 120} for i in range(n)]


def judge(case, ctx):
    ctx.evaluated()
    r, names, vmap = C.run_partition_case(case, ctx=ctx)
    alg = case["alg"]
    if r.timeout:
        ctx.inconc("timeout", case)
        return
    if r.raw_none:
        ctx.violation("none_result", alg, case, {"note": "algorithm ran to completion (no time limit) and returned None",
                                                 "has_zero_item": 0 in case["values"], "cg_mask": case.get("cg_mask")})
        return
    if r.exc is not None:
        if alg == "cbldm" and isinstance(r.exc, RecursionError) and len(case["values"]) >= 900:
            # documented limitation of cbldm ("the length must be at most 900-1000 due to stack limitations"): an explicit error, not a missing or wrong result
            ctx.counters["cbldm_stack_limit_refusals"] += 1
            ctx.held(cls="cbldm/stack_limit")
            return
        ctx.violation("exception", alg, case, C.exc_witness(r, case))
        return
    bad = C.check_partition_result(r.value, names, vmap, case["k"], alg)
    if bad:
        ctx.violation(bad[0], alg, case, bad[1])
        return
    nontrivial = len(case["values"]) >= 2 and case["k"] >= 2
    ctx.held(key=C.canon_case_key(case, case["pres"]), nontrivial=nontrivial, cls=f"{alg}/{case['cls']}",
             sample={"case": case, "bins": [list(map(str, b)) for b in r.value[1]]})
    ctx.counters["alg:" + alg] += 1
    ctx.counters["pres:" + case["pres"]] += 1


def run_shard(spec, rng, ctx):
    end = C.budget(spec)
    algs = list(C.ALL_PART)
    i = 0
    while i < spec["max_cases"] and C.now() < end:
        # rotate algorithms so that each gets its share regardless of cost
        alg = algs[i % len(algs)]
        case = C.draw_partition_case(rng, alg=alg, classes=CLASSES)
        judge(case, ctx)
        i += 1
        for _ in range(6):
            # volume for the cheap heuristics (a call costs ~0.1 ms): small inputs, 1-5 bins, values up to 12..100. Multifit gets the largest share: "fewer bins, never more"
            # rests on the interplay of its binary search with its final first-fit-decreasing run, which fails only on rare capacity coincidences
            alg = rng.choice(["multifit", "multifit", "multifit", "multifit", "greedy", "kk", "roundrobin"])
            judge({"kind": "partition", "alg": alg, "k": rng.choice([1, 2, 2, 3, 3, 4, 5]), "values": [rng.randint(0, rng.choice([12, 20, 50, 100])) for _ in range(rng.randint(1, 14))],
                   "cls": "cheap_volume", "pres": rng.choice(["list", "list", "list", "dict_str", "names_int"]), "pres_seed": rng.randrange(1 << 30),
                   "iterations": rng.choice([None, None, 3, 5, 10, 20]) if alg == "multifit" else None}, ctx)
        if i % 4 == 1:
            # zero-valued items inside the branching searches (a zero changes no sum, so bookkeeping slips with zeros are invisible to every sum-based test):
            # 3-5 bins, 5-8 items over 0..20 with at least one zero
            alg = rng.choice(["ckk", "ckk", "ckk", "snp", "cg", "kk", "rnp"])
            k = rng.choice([3, 3, 4, 5])
            vals = [rng.randint(0, rng.choice([10, 20])) for _ in range(rng.randint(5, 8))]
            for _ in range(rng.choice([1, 1, 2])):
                vals[rng.randrange(len(vals))] = 0
            case = {"kind": "partition", "alg": alg, "k": k, "values": vals, "cls": "zeros_in_searches", "pres": rng.choice(["list", "list", "dict_str", "names_int"]),
                    "pres_seed": rng.randrange(1 << 30)}
            if alg == "cg":
                case["objective"] = [rng.choice(C.OBJ5[:3]), None]
                case["cg_mask"] = rng.randrange(16)
            judge(case, ctx)
        if i % 4 == 3:
            # snp / rnp / ckk with >= 3 bins and 7-10 items: these run many nested two-way searches on ONE bins-manager, so state that lives in the manager
            # (or is keyed by object identity) between searches shows only here
            alg = rng.choice(["snp", "snp", "rnp", "ckk"])
            k = rng.choice([3, 3, 4]) if alg != "rnp" else rng.choice([3, 4, 5])
            n = rng.randint(7, 10 if k == 3 else 9)
            judge({"kind": "partition", "alg": alg, "k": k, "values": [rng.randint(0 if rng.random() < 0.1 else 1, rng.choice([20, 100, 100])) for _ in range(n)],
                   "cls": "nested_searches", "pres": rng.choice(["list", "list", "dict_str", "array"]), "pres_seed": rng.randrange(1 << 30)}, ctx)
        if i % 500 == 250:
            # far corner: cbldm around its documented stack limit (about 1000 items). It must either refuse explicitly or return a true partition.
            n = rng.randint(1000, 1300)
            judge({"kind": "partition", "alg": "cbldm", "k": 2, "values": [rng.randint(0, 1000) for _ in range(n)], "cls": "cbldm_stack_limit",
                   "pres": rng.choice(["list", "dict_str"]), "pres_seed": rng.randrange(1 << 30), "cbldm_d": None}, ctx)
        if i % 200 == 0:
            # the known-finding region (rnp, numbins >= 6) at small volume: whatever rnp RETURNS there must still be a partition, and a failure
            # must match the finding's classifier; anything else is reported
            k = rng.choice([6, 7, 8])
            judge({"kind": "partition", "alg": "rnp", "k": k, "values": [rng.randint(1, 30) for _ in range(rng.randint(2, 7))], "cls": "rnp_k6_region",
                   "pres": rng.choice(["list", "dict_str"]), "pres_seed": rng.randrange(1 << 30)}, ctx)
    if i < spec["max_cases"]:
        ctx.counters["stopped_by_budget"] += 1


def replay(case, ctx):
    judge(case, ctx)
