"""
C02 — exact partitioners attain the true optimum (DESIGN.md §5 C02).
Deciding monitor: M1 boundary recorder; oracle O1 (exhaustive sorted sum-vectors) on the objective recomputed from the
returned CONTENTS with rv's own objective definitions. M6 probes report which pruning rules fired (evidence only).
"""
import time, importlib
from rv.props import common as C
from rv import oracles as O, refmodels as R, gen
from rv.harness import max_n, mod, exact

LEVEL = "exploration"
RULE = ("bounded-exhaustive: every multiset of 1..5 (thorough 6) items over 0..4 x 1..4 bins x every exact algorithm (30% of the budget; completion reported as grid_exhaustive_complete_shards); then per generated instance (values, numbins) the exhaustive optimum of every objective is computed once (O1), then the "
        "instance is solved by complete greedy under all 16 switch masks x {maxmin,minmax,diff}, by ckk/snp/rnp (diff), by dp "
        "(2 of 5 objectives) and, for values <= 200, by ilp (1 of 5 objectives); non-trivial = n > numbins >= 2 and LPT's value "
        "differs from the optimum of that objective; distinct on (algorithm, config, sorted values, numbins); every 10th (thorough: 4th) instance is of class manysmall: "
        "11-13 items with values <= 15, where O1 stays cheap, solved by cg (9 configurations), snp, rnp and ckk (<= 3 bins); 15% of each shard: snp against the exhaustive oracle on 4 bins x 10 items / 5 bins x 9-10 items; 15%: certificate pairs "
        "(snp vs complete greedy on 9-12 items, 4-5 bins, values <= 1000; a strictly better validated partition refutes the other); 7 of 8 main-loop slots: complete-greedy focus "
        "(cheap instances of 5-8 items, every third one of 9-11 items with 2-4 bins, every third one a few big plus a few tiny items with 2-3 bins; 3 objectives x default switches + a random mask, plus a heuristic-3-on run under min-max) and a ckk/snp focus "
        "(3-4 bins, 6-9 items); a quarter of the exact runs ask for sums only (the returned sums must be reachable and optimal), plus a sums-only focus on snp/ckk with 10-12 small-valued items and 3-4 bins")
ASSUMPTIONS = ["O1 enumerates all sorted sum-vectors (n <= 10; n <= 13 for the small-valued and 2-4-bin focus classes)", "ilp disagreements are re-solved with CBC preprocessing off; agreement then = inconclusive(solver)",
               "rnp: numbins <= 5 (numbins >= 6 is KF-rnp-k6, no value returned)"]
FLOORS = {"quick": {"distinct_nontrivial": 600, "cg.returns": 1000}, "thorough": {"distinct_nontrivial": 3000, "cg.returns": 5000}}
CLASSES = ("small", "small", "ties", "equal", "perfect", "nearperfect", "powers", "onehuge", "zeros", "kgtn", "grid", "big", "huge", "bignear")


def plan(tier, seed):
    n = 16 if tier == "quick" else 64
    b = 100 if tier == "quick" else 220      # the largest budget of all checks: six exact algorithms, each with its own focus phase
    return [{"seed": seed * 1000 + i, "shard": i, "nshards": n, "budget_s": b, "max_instances": 100000, "watchdog_s": b * 5 + 120} for i in range(n)]


def draw_instance(rng):
    cls = rng.choice(CLASSES)
    k = rng.choice([1, 2, 2, 3, 3, 3, 4, 4, 4, 5, 5])
    if cls == "kgtn":
        k = rng.randint(2, 6)
        n = rng.randint(1, k - 1)
    else:
        nmax = {1: 8, 2: 10, 3: 10, 4: 9, 5: 8}.get(k, 7)
        n = rng.randint(1, nmax) if rng.random() < 0.5 else rng.randint(max(1, nmax - 2), nmax)
    if cls in ("big", "huge", "bignear"):
        n = min(n, 6 if cls == "huge" else 8)
    return cls, k, gen.part_values(rng, cls, n, k)


def lpt_value(values, k, name, kp):
    return O.objval(name, [sum(b) for b in R.lpt(values, k)], kp)


_ilp_nopre = None


def ilp_resolve_without_preprocessing(case):
    """Re-solve with CBC preprocessing off (solver discipline of the property's quantifier)."""
    import mip
    ipm = mod("prtpy.partitioning.integer_programming")
    Orig = ipm.mip.Model

    class M(Orig):
        def __init__(self, *a, **k):
            super().__init__(*a, **k)
            self.preprocess = 0
    ipm.mip.Model = M
    try:
        r, names, vmap = C.run_partition_case(case, timeout=60)
    finally:
        ipm.mip.Model = Orig
    return r, names, vmap


def judge_one(case, vectors, ctx, optcache):
    """One monitored call of an exact algorithm on an instance whose sum-vector set is known."""
    alg, k, values = case["alg"], case["k"], case["values"]
    name, kp = case.get("objective") or ["diff", None]
    ctx.evaluated()
    if case.get("sums_only"):
        # the cheap output type: the algorithm runs with the sums-only manager (a different code path in dp, ckk, bin arithmetic); the returned sum vector must be
        # REACHABLE (one of O1's sorted sum-vectors) and optimal
        r, names, vmap = C.run_partition_case(case, "Sums", ctx=ctx, timeout=12)
        if r.timeout:
            ctx.inconc("timeout:" + alg, case)
            return
        if not r.ok:
            ctx.violation("exception" if r.exc is not None else "none_result", alg, case, dict(C.exc_witness(r, case), outputtype="Sums") if r.exc is not None else {"outputtype": "Sums"})
            return
        s = [exact(x) for x in r.value]
        if tuple(sorted(s)) not in vectors:
            ctx.violation("sums_output_is_not_a_reachable_sum_vector", alg, case, {"sums": s, "numbins": k})
            return
        got = O.objval(name, s, kp)
        key = (name, kp)
        if key not in optcache:
            optcache[key] = O.opt_partition(values, k, name, kp, vectors)
        if got != optcache[key]:
            ctx.violation("suboptimal", alg, case, {"numbins": k, "n": len(values), "objective": name, "k_param": kp, "got": got, "opt": optcache[key], "sums": s, "outputtype": "Sums",
                                                    "valid_partition": True})
            return
        ctx.held(key=(alg, case.get("cg_mask"), name, kp, tuple(sorted(values)), k, "Sums"), nontrivial=len(values) > k >= 2 and lpt_value(values, k, name, kp) != optcache[key],
                 cls=f"{alg}/{name}/sums_only")
        ctx.counters["sums_only_runs"] += 1
        return
    r, names, vmap = C.run_partition_case(case, ctx=ctx, timeout=12)
    if r.timeout:
        ctx.inconc("timeout:" + alg, case)
        return
    w = {"numbins": k, "n": len(values), "objective": name, "k_param": kp}
    if r.raw_none:
        ctx.violation("none_result", alg, case, w)
        return
    if r.exc is not None:
        w.update(C.exc_witness(r, case))
        ctx.violation("exception", alg, case, w)
        return
    bad = C.check_partition_result(r.value, names, vmap, k, alg)
    if bad:
        w.update(bad[1])
        ctx.violation("invalid_partition:" + bad[0], alg, case, w)
        return
    vals = C.bins_values(r.value[1], vmap)
    sums_from_contents = [sum(b) for b in vals]
    got = O.objval(name, sums_from_contents, kp)
    key = (name, kp)
    if key not in optcache:
        optcache[key] = O.opt_partition(values, k, name, kp, vectors)
    opt = optcache[key]
    if got != opt:
        if alg == "ilp":
            r2, n2, v2 = ilp_resolve_without_preprocessing(case)
            if r2.ok and not C.check_partition_result(r2.value, n2, v2, k, alg):
                got2 = O.objval(name, [sum(b) for b in C.bins_values(r2.value[1], v2)], kp)
                if got2 == opt:
                    ctx.inconc("solver_preprocessing", case)
                    return
        w.update({"got": got, "opt": opt, "valid_partition": True, "sums": sums_from_contents})
        if alg == "rnp":
            ck = dict(case, alg="kk")
            rk, nk, vk = C.run_partition_case(ck, ctx=None)
            if rk.ok:
                w["kk_value"] = O.objval("diff", [sum(b) for b in C.bins_values(rk.value[1], vk)])
        ctx.violation("suboptimal", alg, case, w)
        return
    nontrivial = len(values) > k >= 2 and lpt_value(values, k, name, kp) != opt
    cfg = case.get("cg_mask")
    ctx.held(key=(alg, cfg, name, kp, tuple(sorted(values)), k), nontrivial=nontrivial, cls=f"{alg}/{name}",
             sample={"case": case, "optimum": opt, "sums": sums_from_contents})
    ctx.counters["alg:" + alg] += 1
    if nontrivial:
        ctx.counters["nontrivial:" + alg] += 1


def run_manysmall(k, values, rng, ctx):
    """Thorough tier: 11-13 items with small values. O1 stays cheap because the number of distinct sum-vectors is bounded by the value range, not by k^n."""
    vectors = O.sum_vectors(values, k)
    optcache = {}
    base = {"kind": "partition", "k": k, "values": values, "cls": "manysmall", "pres": "list", "pres_seed": 0}
    todo = [dict(base, alg="cg", objective=[name, None], cg_mask=mask) for name in ("maxmin", "minmax", "diff") for mask in rng.sample(range(16), 3)]
    todo += [dict(base, alg="snp"), dict(base, alg="rnp")]
    if k <= 3:
        todo.append(dict(base, alg="ckk"))
    for case in todo:
        judge_one(case, vectors, ctx, optcache)
    ctx.counters["manysmall_instances"] += 1


def run_certificate_pair(k, values, rng, ctx):
    """
    Beyond O1's size (9-12 items, 4-5 bins): sequential number partitioning and complete greedy (difference objective) on the same instance. Each result is
    validated as a partition; a strictly better VALIDATED partition from the other algorithm is a certificate (O6) that the worse one is not optimal.
    """
    base = {"kind": "partition", "k": k, "values": values, "cls": "certificate_pair", "pres": "list", "pres_seed": 0}
    got = {}
    for alg, extra in (("snp", {}), ("cg", {"objective": ["diff", None], "cg_mask": 11})):
        case = dict(base, alg=alg, **extra)
        ctx.evaluated()
        r, names, vmap = C.run_partition_case(case, ctx=ctx, timeout=1.5)     # snp has a heavy tail; slow instances are dropped quickly (inconclusive)
        if r.timeout:
            ctx.inconc("timeout:" + alg, case)
            return
        if not r.ok:
            ctx.violation("exception" if r.exc is not None else "none_result", alg, case, C.exc_witness(r, case) if r.exc is not None else {})
            return
        bad = C.check_partition_result(r.value, names, vmap, k, alg)
        if bad:
            ctx.violation("invalid_partition:" + bad[0], alg, case, bad[1])
            return
        s = [sum(b) for b in C.bins_values(r.value[1], vmap)]
        got[alg] = (max(s) - min(s), s, case)
    best = min(v for v, _, _ in got.values())
    for alg, (v, s, case) in got.items():
        if v > best:
            other = [a for a in got if a != alg][0]
            ctx.violation("suboptimal", alg, case, {"numbins": k, "n": len(values), "objective": "diff", "got": v, "opt": best, "valid_partition": True, "sums": s,
                                                    "certificate_from": other, "certificate_sums": got[other][1], "note": "opt = value of a validated partition returned by " + other})
        else:
            ctx.held(key=(alg, "pair", tuple(sorted(values)), k), nontrivial=lpt_value(values, k, "diff", None) != best, cls=f"{alg}/certificate_pair",
                     sample={"case": case, "agreed_value": best})
    ctx.counters["certificate_pairs"] += 1


def judge_snp_mid(case, ctx):
    """snp on 4-5 bins x 9-10 items against the numpy form of the exhaustive oracle (instance volume matters here; every 50th optimum is re-computed with the plain oracle)."""
    k, values = case["k"], case["values"]
    ctx.evaluated()
    r, names, vmap = C.run_partition_case(case, "Sums" if case.get("sums_only") else "PartitionAndSumsTuple", ctx=ctx, timeout=12)
    if r.timeout:
        ctx.inconc("timeout:snp", case)
        return
    if not r.ok:
        ctx.violation("exception" if r.exc is not None else "none_result", "snp", case, C.exc_witness(r, case) if r.exc is not None else {})
        return
    if case.get("sums_only"):
        s = [exact(x) for x in r.value]
        if len(s) != k or sum(s) != sum(values):
            ctx.violation("sums_output_is_not_a_reachable_sum_vector", "snp", case, {"sums": s, "numbins": k})
            return
    else:
        bad = C.check_partition_result(r.value, names, vmap, k, "snp")
        if bad:
            ctx.violation(bad[0], "snp", case, bad[1])
            return
        s = [sum(b) for b in C.bins_values(r.value[1], vmap)]
    opt = O.diff_opt_fast(values, k)
    ctx.counters["snp_mid_instances"] += 1
    if ctx.counters["snp_mid_instances"] % 50 == 1 and opt != min(v[-1] - v[0] for v in O.sum_vectors(values, k)):
        raise AssertionError("oracle self-check failed: diff_opt_fast disagrees with sum_vectors on %r, %d bins" % (values, k))
    got = max(s) - min(s)
    if got != opt:
        ctx.violation("suboptimal", "snp", case, {"numbins": k, "n": len(values), "objective": "diff", "got": got, "opt": opt, "sums": sorted(s), "valid_partition": True})
        return
    ctx.held(key=("snp", None, "diff", None, tuple(sorted(values)), k, bool(case.get("sums_only"))), nontrivial=lpt_value(values, k, "diff", None) != opt, cls="snp/diff/snp_mid")


def run_cg_focus(k, values, rng, ctx, large=False):
    vectors = O.sum_vectors(values, k)
    optcache = {}
    base = {"kind": "partition", "k": k, "values": values, "cls": "cg_focus_large" if large else "cg_focus", "pres": "list", "pres_seed": 0, "alg": "cg"}
    keep_fast = 0b0001 if large else 0                     # 9-11 items: the lower bound stays on so that one run stays in the millisecond range
    for name in ("maxmin", "minmax", "diff"):
        masks = [0b1011, rng.randrange(16) | keep_fast]    # default switches (bound, fast bound, seen states) and one random combination
        if name == "minmax":
            masks.append(rng.randrange(16) | 0b0100 | keep_fast)      # heuristic 3 only acts under the min-max objective: one more run with it switched on
        for mask in masks:
            judge_one(dict(base, objective=[name, None], cg_mask=mask), vectors, ctx, optcache)


def run_instance(cls, k, values, rng, ctx, algs=None, full_grid=False):
    n = len(values)
    vectors = O.sum_vectors(values, k)
    optcache = {}
    base = {"kind": "partition", "k": k, "values": values, "cls": cls, "pres": rng.choice(["list", "list", "array", "dict_str", "names_int"] + (["array_u"] if sum(values) < 2 ** 31 else [])),
            "pres_seed": rng.randrange(1 << 30)}
    big = max(values) > 10 ** 6
    todo = []
    if n <= max_n("cg", k, big):
        grid = [(name, mask) for name in ("maxmin", "minmax", "diff") for mask in range(16)]
        if not full_grid and rng.random() >= 0.3:          # full 48-configuration grid on 30% of the instances, 8 sampled configurations otherwise
            grid = rng.sample(grid, 8)
        for name, mask in grid:
            todo.append(dict(base, alg="cg", objective=[name, None], cg_mask=mask))
    for alg in ("ckk", "snp", "rnp"):
        if n <= max_n(alg, k, big) and not (alg == "rnp" and k >= 6):
            todo.append(dict(base, alg=alg))
    if n <= max_n("dp", k) and (not big or n <= 6):
        for name in rng.sample(C.OBJ5, 2):
            todo.append(dict(base, alg="dp", objective=[name, rng.randint(1, k + 1) if name in ("ksmall", "klarge") else None]))
    if max(values) <= 200 and n <= max_n("ilp", k) and rng.random() < 0.5:
        name = rng.choice(C.OBJ5)
        todo.append(dict(base, alg="ilp", objective=[name, rng.randint(1, k + 1) if name in ("ksmall", "klarge") else None]))
    for case in todo:
        if algs and case["alg"] not in algs:
            continue
        if case["alg"] != "rnp" and rng.random() < 0.25:
            case = dict(case, sums_only=True)
        judge_one(case, vectors, ctx, optcache)


def run_shard(spec, rng, ctx):
    from rv.monitors import standard_probes
    end = C.budget(spec)
    # 15% of the budget, BEFORE the sys.monitoring probes are switched on (line probes slow snp down three times, and this phase lives on instance volume): snp against the
    # exhaustive oracle at the largest size the oracle affords (4 bins x 10 items, 5 bins x 9-10 items). Second-level inclusion-exclusion trees only exist from 4 bins on, and
    # their pruning defects show in ~0.3% of such instances and almost never below 10 items
    mid_end = C.now() + 0.15 * float(spec.get("budget_s", 60))
    while C.now() < mid_end:
        k = rng.choice([4, 4, 4, 5])
        top = rng.choice([30, 100, 100, 300])          # one range per instance: snp needs seconds when a single item dwarfs the others, and this phase lives on volume
        vals = [rng.randint(1, top) for _ in range(10 if k == 4 else rng.randint(9, 10))]
        judge_snp_mid({"kind": "partition", "k": k, "values": vals, "cls": "snp_mid", "pres": rng.choice(["list", "list", "dict_str"]), "pres_seed": rng.randrange(1 << 30), "alg": "snp",
                       **({"sums_only": True} if rng.random() < 0.3 else {})}, ctx)
    probes = standard_probes().start()
    i = 0
    try:
        # bounded-exhaustive small scope first: EVERY multiset of 1..5 items (thorough: 6) over the values 0..4 x 1..4 bins, solved by every exact algorithm
        # (complete greedy: all 16 masks x 3 objectives). Sharded deterministically; together the shards enumerate the scope exactly once.
        grid_end = C.now() + 0.3 * float(spec.get("budget_s", 60))
        maxlen = 6 if spec.get("tier") == "thorough" else 5
        complete = True
        for k in (1, 2, 3, 4):
            for ms in C.sharded(C.multisets(range(0, 5), maxlen), spec):
                if C.now() > grid_end:
                    complete = False
                    break
                run_instance("grid_exhaustive", k, list(ms), rng, ctx, full_grid=True)
                ctx.counters["grid_exhaustive_instances"] += 1
        ctx.counters["grid_exhaustive_complete_shards"] += int(complete)
        # 30% of the budget: snp vs complete greedy beyond the exhaustive oracle's size (pruning defects of snp show at >= 4 bins and >= 9-10 items)
        pair_end = C.now() + 0.15 * float(spec.get("budget_s", 60))
        while C.now() < pair_end:
            k = rng.choice([4, 4, 4, 5])
            # 10 items is the sweet spot (snp ~50 ms); the thorough tier also goes to 11-12 items
            n = 10 if (spec.get("tier") != "thorough" or rng.random() < 0.7) else rng.randint(11, 12 if k == 4 else 11)
            top = rng.choice([30, 100, 100, 100, 300]) if rng.random() < 0.8 else None          # mostly one range per instance (snp needs seconds when one item dwarfs the rest)
            run_certificate_pair(k, [rng.randint(1, top or rng.choice([30, 100, 300])) for _ in range(n)], rng, ctx)
        while i < spec["max_instances"] and C.now() < end:
            if i % 8 == 5:
                # complete Karmarkar-Karp / snp focus on cheap sizes (2-3 bins, 6-9 mid-sized values): instance volume for rare coincidences in their pruning
                k = rng.choice([2, 2, 3, 4, 4])
                vals = [rng.randint(1 if rng.random() < 0.9 else 0, rng.choice([30, 40, 100, 254])) for _ in range(rng.randint(6, 9) if k < 4 else rng.randint(7, 8))]
                if rng.random() < 0.3:
                    # a few big items and a few tiny ones (see the complete-greedy focus)
                    vals = [rng.randint(20, 100) for _ in range(rng.randint(k, 2 * k + 1 if k < 4 else k + 2))] + [rng.randint(1, 8) for _ in range(rng.randint(2, 4 if k < 4 else 2))]
                    rng.shuffle(vals)
                vectors = O.sum_vectors(vals, k)
                optcache = {}
                base = {"kind": "partition", "k": k, "values": vals, "cls": "ckk_focus", "pres": rng.choice(["list", "list", "dict_str"]), "pres_seed": rng.randrange(1 << 30)}
                for alg in ("ckk", "snp"):
                    judge_one(dict(base, alg=alg), vectors, ctx, optcache)
                ctx.counters["ckk_focus_instances"] += 1
                i += 1
                continue
            if i % 8 == 3:
                # snp / ckk asked for SUMS ONLY on 10-12 small-valued items with 3-4 bins: the sums-only manager and the contents manager are separate code paths inside the
                # searches, and a shortcut that is only taken on one of them shows as a non-optimal (or unreachable) sum vector for a cheaper output type
                k = rng.choice([3, 3, 4])
                vals = [rng.randint(1, rng.choice([20, 20, 30])) for _ in range(rng.randint(10, 12 if k == 3 else 11))]
                vectors = O.sum_vectors(vals, k)
                optcache = {}
                base = {"kind": "partition", "k": k, "values": vals, "cls": "sums_only_focus", "pres": rng.choice(["list", "list", "dict_str", "array"]), "pres_seed": rng.randrange(1 << 30)}
                judge_one(dict(base, alg="snp", sums_only=True), vectors, ctx, optcache)
                if k == 3 and len(vals) <= 10:
                    judge_one(dict(base, alg="ckk", sums_only=True), vectors, ctx, optcache)
                if rng.random() < 0.25:
                    judge_one(dict(base, alg="snp"), vectors, ctx, optcache)
                ctx.counters["sums_only_focus_instances"] += 1
                i += 1
                continue
            if i % 8 != 0:
                # complete-greedy focus: MANY cheap instances (3-5 bins, 5-8 items, values up to 100), each under 6 configurations (3 objectives x the default
                # switches and one random mask): pruning rules that cut an optimal leaf only on a rare arithmetic coincidence of the input need instance volume
                if i % 3 == 1:
                    # larger instances (9-11 items, 2-4 bins): some pruning defects need a collision between states reached from different parents, seen only from ~11 items on
                    k = rng.choice([2, 3, 3, 4])
                    vals = [rng.randint(0 if rng.random() < 0.1 else 1, rng.choice([20, 30, 100])) for _ in range(rng.randint(9, 11 if k <= 3 else 10))]
                    run_cg_focus(k, vals, rng, ctx, large=True)
                    ctx.counters["cg_focus_large_instances"] += 1
                elif i % 3 == 2:
                    # "a few big items and a few tiny ones" (2-3 bins): the tiny items cannot make up for a big item placed wrongly, so a dominance or bound rule that is
                    # almost valid ("this bin is not the bottleneck", "the small ones will even it out") fails here and nowhere in uniformly drawn inputs
                    k = rng.choice([2, 2, 3])
                    hi = rng.choice([60, 100])
                    vals = [rng.randint(hi // 5, hi) for _ in range(rng.randint(k, 2 * k + 1))] + [rng.randint(1, max(2, hi // 12)) for _ in range(rng.randint(2, 5))]
                    rng.shuffle(vals)
                    run_cg_focus(k, vals, rng, ctx)
                    ctx.counters["cg_focus_bigtiny_instances"] += 1
                else:
                    k = rng.choice([3, 3, 4, 5])
                    vals = [rng.randint(0 if rng.random() < 0.1 else 1, rng.choice([20, 30, 100])) for _ in range(rng.randint(5, 8 if k <= 4 else 7))]
                    run_cg_focus(k, vals, rng, ctx)
                ctx.counters["cg_focus_instances"] += 1
                i += 1
                continue
            j = i // 8        # index among the non-focus instances
            if j % (4 if spec.get("tier") == "thorough" else 10) == 3:
                k = rng.choice([2, 3, 3, 4])
                run_manysmall(k, [rng.randint(0 if rng.random() < 0.1 else 1, rng.choice([4, 9, 15])) for _ in range(rng.randint(11, 13))], rng, ctx)
            else:
                cls, k, values = draw_instance(rng)
                run_instance(cls, k, values, rng, ctx)
            ctx.counters["instances"] += 1
            i += 1
    finally:
        probes.stop()
    ctx.reach.update(probes.counts)
    for u in probes.unattached:
        ctx.reach["unattached:" + u] += 1


def replay(case, ctx):
    if case.get("cls") == "snp_mid":
        return judge_snp_mid(case, ctx)
    vectors = O.sum_vectors(case["values"], case["k"])
    judge_one(case, vectors, ctx, {})
