"""
C10 — bin-covering heuristics meet their approximation guarantees (DESIGN.md §5 C10).
Deciding monitor: M1 on prtpy.pack(covering.*); oracle O3 (exact subset DP, <= 13 items), planted instances (OPT exactly-full bins + dust), docstring worst-case families.
"""
import time
from fractions import Fraction as F
from rv.props import common as C
from rv import oracles as O, gen

LEVEL = "exploration"
RULE = ("decreasing / two-thirds / three-quarters on small instances with exact optimum (<= 12 items), planted instances of OPT exactly-full bins plus dust < binsize "
        "(OPT up to 60, up to ~300 items) and the docstring worst-case families k = 1..6; count must satisfy >= (OPT-1)/2, >= 2/3 (OPT-1), >= 3/4 OPT - 4 respectively and <= OPT; "
        "non-trivial = OPT >= 3 and count < OPT; distinct on (algorithm, binsize, sorted values)")
ASSUMPTIONS = ["the 3/4 OPT - 4 bound only bites for OPT >= 6, i.e. on planted / worst-case instances"]
FLOORS = {"quick": {"distinct_nontrivial": 1500}, "thorough": {"distinct_nontrivial": 7500}}


def plan(tier, seed):
    n = 16 if tier == "quick" else 64
    b = 35 if tier == "quick" else 100
    return [{"seed": seed * 1000 + i, "shard": i, "budget_s": b, "max_cases": 10 ** 7, "watchdog_s": b * 5 + 120} for i in range(n)]


def judge(case, ctx):
    alg, Cs, vals = case["alg"], case["C"], case["values"]
    ctx.evaluated()
    opt = case.get("planted_opt")
    if opt is None:
        try:
            opt = O.max_cover(vals, Cs)
        except O.OracleBudget:
            ctx.inconc("oracle_budget", case)
            return
    r, names, vmap = C.run_pack_case(case, "PartitionAndSumsTuple", ctx=ctx, pres="list")
    if r.timeout:
        ctx.inconc("timeout", case)
        return
    if not r.ok:
        ctx.violation("exception", alg, case, C.exc_witness(r, case) if r.exc is not None else {"none": True})
        return
    sums, lists = r.value
    n = len(lists)
    w = {"binsize": Cs, "covered": n, "opt": opt, "bins": lists[:10]}
    from collections import Counter
    if Counter(x for b in lists for x in b) - Counter(vals) or any(sum(b) < Cs for b in lists):
        ctx.violation("reported_bins_are_not_a_valid_cover", alg, case, w)
        return
    if n > opt:
        ctx.violation("more_bins_than_any_cover_can_fill", alg, case, w)
        return
    bound = {"decreasing": F(opt - 1, 2), "twothirds": F(2, 3) * (opt - 1), "threequarters": F(3, 4) * opt - 4}[alg]
    if F(n) < bound:
        ctx.violation("approximation_guarantee_missed", alg, case, dict(w, bound=float(bound)))
        return
    ctx.held(key=(alg, Cs, tuple(sorted(vals))), nontrivial=opt >= 3 and n < opt, cls=f"{alg}/{case['cls']}",
             sample={"case": dict(case, values=vals[:30]), "covered": n, "opt": opt})
    ctx.counters["alg:" + alg] += 1
    if opt >= 6:
        ctx.counters["opt>=6"] += 1


def draw(rng, alg):
    x = rng.random()
    if x < 0.45:
        cls = rng.choice(["random", "threshold", "equal", "toosmall", "planted", "widerange"])
        Cs, v = gen.cover_instance(rng, cls, nmax=rng.choice([6, 9, 12]))
        return {"kind": "cover", "alg": alg, "C": Cs, "values": gen.arrange(rng, v, rng.choice(gen.ORDERS)), "cls": "small/" + cls, "pres": "list", "pres_seed": 0}
    if x < 0.85:
        m = rng.choice([3, 4, 6, 8, 12, 20, 40, 60])
        Cs = rng.choice([12, 30, 60, 100, 600, 1000]) if rng.random() < 0.6 else rng.randint(12, rng.choice([250, 250, 5000]))     # arbitrary bin sizes too (see gen.free_binsize)
        v = []
        style = rng.choice(["mixed", "bigsmall", "medium", "thirds", "templates", "templates"])
        if style == "templates":
            # a few bin TEMPLATES replicated many times (families such as "one bin [S-1,1] plus n bins [S/2-1, S/2-1, 2]"): systematic behaviour of a
            # heuristic over a long run of identical situations only shows here
            m = rng.choice([6, 12, 30, 60, 100, 150])
            eps = rng.choice([1, 1, 2, max(1, Cs // 100)])
            lib = [[Cs - eps, eps], [Cs // 2 - eps, Cs // 2 - eps, Cs - 2 * (Cs // 2 - eps)], [Cs // 2 + eps, Cs - (Cs // 2 + eps)],
                   [Cs // 3, Cs // 3, Cs - 2 * (Cs // 3)], [Cs // 3 + eps, Cs // 3 + eps, Cs - 2 * (Cs // 3 + eps)], [Cs // 2, Cs // 2] if Cs % 2 == 0 else [Cs // 2, Cs - Cs // 2],
                   [Cs // 4] * 3 + [Cs - 3 * (Cs // 4)], gen.split_total(rng, Cs, rng.randint(2, 5))]
            lib = [t for t in lib if all(x >= 1 for x in t) and sum(t) == Cs]
            chosen = rng.sample(lib, min(len(lib), rng.randint(1, 3)))
            weights = [rng.choice([1, 1, 5, 20]) for _ in chosen]
            for _ in range(m):
                v += rng.choices(chosen, weights)[0]
        for _ in range(m if style != "templates" else 0):
            if style == "mixed":
                v += gen.split_total(rng, Cs, rng.randint(1, 5))
            elif style == "bigsmall":
                big = rng.randint(Cs // 2, Cs - 1)
                v += [big] + gen.split_total(rng, Cs - big, rng.randint(1, max(1, min(4, Cs - big))))
            elif style == "medium":
                a = rng.randint(Cs // 3, Cs // 2)
                b = rng.randint(Cs // 3, Cs // 2)
                rest = Cs - a - b
                v += [a, b] + (gen.split_total(rng, rest, rng.randint(1, max(1, min(3, rest)))) if rest > 0 else [])
            else:
                a = Cs // 3
                v += [a, a, Cs - 2 * a]
        dust_total = rng.randint(0, Cs - 1)
        if dust_total:
            v += gen.split_total(rng, dust_total, rng.randint(1, min(4, dust_total)))
        return {"kind": "cover", "alg": alg, "C": Cs, "values": gen.arrange(rng, v, rng.choice(gen.ORDERS)), "cls": "planted/" + style, "planted_opt": m, "pres": "list", "pres_seed": 0}
    k = rng.randint(1, 6)
    # docstring family of greedy_covering / cflz_covering: [1000-6k] + 6k x 499 + 6k x 1 with binsize 1000.
    # OPT = 3k exactly: 3k bins {499,499,1,1} are a cover, and the volume bound floor((1000-6k+3000k)/1000) is 3k.
    v = gen.cover_worst_family("nfd", k)
    return {"kind": "cover", "alg": alg, "C": 1000, "values": gen.arrange(rng, v, rng.choice(gen.ORDERS)), "cls": "worst/docstring_family", "planted_opt": 3 * k, "pres": "list", "pres_seed": 0}


def run_shard(spec, rng, ctx):
    end = C.budget(spec)
    i = 0
    while i < spec["max_cases"] and C.now() < end:
        case = draw(rng, C.COVERERS[i % 3])
        if case.get("planted_opt") is None and len(case["values"]) > 13:
            i += 1
            continue
        judge(case, ctx)
        i += 1


def replay(case, ctx):
    judge(case, ctx)
