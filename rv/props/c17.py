"""
C17 — ILP options (copies, weights, constraints) are honoured; sums come out ascending (DESIGN.md §5 C17).
Deciding monitor: M1 on prtpy.partition(ilp, copies=..., weights=..., additional_constraints=...); oracles: O1 on the expanded multiset restricted by the constraint,
brute force over all assignments for weighted objectives (bins are distinguishable there). Solver discipline: a disagreement is re-solved with CBC preprocessing off.
"""
import itertools, time
from collections import Counter
from fractions import Fraction as F
from rv.props import common as C
from rv import oracles as O
from rv.harness import mod, monitored_call, present
import random

LEVEL = "exploration"
RULE = ("ilp on n <= 6 items (values <= 200), 1-4 bins, five objectives; option classes: copies (one number 0/1/2, a per-item list, or a per-item dict keyed by item index written in shuffled insertion order), constraints smallest==c / largest<=c / smallest>=c (one, or two in the same list) with c below, at and "
        "above feasibility (infeasible ones must raise ValueError), equal power-of-two weights combined with constraints (which then speak about sum/weight; includes the shares 1/numbins), weights (uniform and non-uniform from {1/4,1/2,1,2,3,5,7.5,10,20,25,50,100} or arbitrary integers / dyadic fractions), plain; non-trivial = constraint binding (constrained optimum differs from the "
        "unconstrained one) or infeasible, or copies not all 1, or weights not all equal; distinct on the full call")
ASSUMPTIONS = ["values <= 200 (the property's solver envelope); a mismatch that disappears with CBC preprocessing off is inconclusive(solver)",
               "equal weights: 'never change the result' is read as same optimal value, same copies, ascending sums (the partition may differ among equally optimal ones)",
               "non-uniform weights: open finding KF-ilp-weights (classifier: result is the optimum of the restricted model up to a permutation of bins)"]
FLOORS = {"quick": {"distinct_nontrivial": 500}, "thorough": {"distinct_nontrivial": 2500}}
W_POOL = (1, 2, 3, 5, 10, 0.5, 0.25, 7.5, 20, 25, 50, 100)


def plan(tier, seed):
    n = 16 if tier == "quick" else 64
    b = 50 if tier == "quick" else 140
    return [{"seed": seed * 1000 + i, "shard": i, "budget_s": b, "watchdog_s": b * 6 + 300} for i in range(n)]


def constraint_fn(c):
    if c and isinstance(c[0], (list, tuple)):
        # several constraints returned in one list (all of them must be honoured)
        fns = [constraint_fn(x) for x in c]
        return lambda sums: [con for f in fns for con in f(sums)]
    kind, val = c
    if kind == "min_eq":
        return lambda sums: [sums[0] == val]
    if kind == "max_le":
        return lambda sums: [sums[-1] <= val]
    if kind == "min_ge":
        return lambda sums: [sums[0] >= val]
    raise KeyError(kind)


def constraint_ok(c, sorted_sums):
    if c and isinstance(c[0], (list, tuple)):
        return all(constraint_ok(x, sorted_sums) for x in c)
    kind, val = c
    return {"min_eq": sorted_sums[0] == val, "max_le": sorted_sums[-1] <= val, "min_ge": sorted_sums[0] >= val}[kind]


def call(case, ctx, nopre=False):
    A = C.algos()
    prng = random.Random(case.get("pres_seed", 0))
    items, valueof, names, vmap = present(case["values"], case["pres"], prng)
    kw = {"objective": A.objective(*case["objective"], case=case)}
    if case.get("copies") is not None:
        kw["copies"] = case["copies"]
        if case.get("copies_dict_order") is not None:
            # per-item copies given as a dict {item index: copies}, written in an arbitrary insertion order
            kw["copies"] = {i: case["copies"][i] for i in case["copies_dict_order"]}
    if case.get("weights") is not None:
        kw["weights"] = list(case["weights"])
    if case.get("constraint") is not None:
        kw["additional_constraints"] = constraint_fn(case["constraint"])
    if case.get("time_limit") is not None:
        kw["time_limit"] = float("inf") if case["time_limit"] == "inf" else case["time_limit"]      # generous limits: the solver needs milliseconds here
    ipm = mod("prtpy.partitioning.integer_programming")
    Orig = ipm.mip.Model
    if nopre:
        class M(Orig):
            def __init__(self, *a, **k):
                super().__init__(*a, **k)
                self.preprocess = 0
        ipm.mip.Model = M
    try:
        r = monitored_call(A.prtpy.partition, A.partitioners["ilp"], case["k"], items, valueof, A.outputtypes["PartitionAndSumsTuple"], timeout=60, ctx=ctx, **kw)
    finally:
        ipm.mip.Model = Orig
    return r, names, vmap


def evaluate(case, r, names, vmap):
    """Return None if the observed return/exception event satisfies C17, else (kind, witness)."""
    k, vals = case["k"], case["values"]
    name, kp = case["objective"]
    copies = case.get("copies")
    cp = [1] * len(vals) if copies is None else ([copies] * len(vals) if isinstance(copies, int) else list(copies))
    expanded = [v for v, c in zip(vals, cp) for _ in range(c)]
    con = case.get("constraint")
    wts = case.get("weights")
    uniform = wts is None or len(set(wts)) == 1
    vectors = O.sum_vectors(expanded, k)
    # the caller's constraints are written on the sums the objective sees, i.e. on the WEIGHTED sums; with equal weights w that is sum/w (w is a power of two whenever a
    # constraint is combined with weights, so the division is exact)
    scale = wts[0] if (wts is not None and uniform and con is not None) else 1
    weighted = (lambda s: [x / scale for x in s]) if scale != 1 else (lambda s: s)
    feas = [s for s in vectors if con is None or constraint_ok(con, weighted(s))]
    w = {"numbins": k, "copies": cp, "constraint": con, "weights": wts, "objective": [name, kp]}
    if not feas:
        if r.ok:
            return "partition_returned_for_infeasible_constraint", dict(w, returned=repr(r.value)[:200])
        if not isinstance(r.exc, ValueError):
            return "wrong_exception_for_infeasible_constraint", dict(w, **C.exc_witness(r, case))
        return None
    if not r.ok:
        return "exception", dict(w, **(C.exc_witness(r, case) if r.exc is not None else {"none": True}))
    sums, lists = r.value
    cnt = Counter()
    for b in lists:
        cnt.update(map(O._key, b))
    want = Counter({O._key(nm): c for nm, c in zip(names, cp) if c})
    if len(set(map(O._key, names))) == len(names):
        if cnt != want:
            return "copies_not_honoured", dict(w, counts={str(k_): v for k_, v in cnt.items()}, bins=[list(map(str, b)) for b in lists])
    else:   # list presentation with repeated values: compare value multisets
        if Counter(C.value_of(x, vmap) for b in lists for x in b) != Counter(expanded):
            return "copies_not_honoured", dict(w, bins=[list(map(str, b)) for b in lists])
    if len(lists) != k:
        return "wrong_bin_count", dict(w, bins=len(lists))
    s = [sum(C.value_of(x, vmap) for x in b) for b in lists]
    if [float(x) for x in sums] != [float(x) for x in s]:
        return "reported_sums_differ_from_contents", dict(w, sums=[float(x) for x in sums], contents_sums=s)
    w["sums"] = s
    if uniform:
        if any(s[i] > s[i + 1] for i in range(k - 1)):
            return "sums_not_ascending", w
        if con is not None and not constraint_ok(con, weighted(sorted(s))):
            return "constraint_violated", w
        got = O.objval(name, s, kp)
        opt = min(O.objval(name, v, kp) for v in feas)
        if got != opt:
            return "not_optimal_among_feasible", dict(w, got=got, opt=opt)
        return None
    # non-uniform weights: bins are distinguishable; brute force over all assignments
    W = [F(x) for x in wts]
    n = len(expanded)
    best = None
    rbest = None
    for assign in itertools.product(range(k), repeat=n):
        t = [0] * k
        for v, a in zip(expanded, assign):
            t[a] += v
        if con is not None and not constraint_ok(con, sorted(t)):
            continue
        ws = [F(t[i]) / W[i] for i in range(k)]
        val = O.objval(name, ws, kp)
        if best is None or val < best:
            best = val
        if all(ws[i] <= ws[i + 1] for i in range(k - 1)) and (rbest is None or val < rbest):
            rbest = val
    got = O.objval(name, [F(s[i]) / W[i] for i in range(k)], kp)
    if best is not None and got == best:
        return None
    matches = False
    if rbest is not None:
        for p in itertools.permutations(range(k)):
            ws = [F(s[p[i]]) / W[i] for i in range(k)]
            if all(ws[i] <= ws[i + 1] for i in range(k - 1)) and O.objval(name, ws, kp) == rbest:
                matches = True
                break
    return "weighted_not_optimal", dict(w, got=str(got), opt=str(best), restricted_opt=str(rbest), weights_uniform=False, matches_restricted_model=matches)


def judge(case, ctx):
    ctx.evaluated()
    r, names, vmap = call(case, ctx)
    if r.timeout:
        ctx.inconc("timeout", case)
        return
    bad = evaluate(case, r, names, vmap)
    if bad:
        # solver discipline (property's quantifier): CBC's preprocessing occasionally returns an inconsistent "optimal" point (seen with copies=0 rows:
        # an item with zero copies placed once); a result that is right with preprocessing off is the solver's fault -> inconclusive(solver), counted
        r2, n2, v2 = call(case, ctx, nopre=True)
        if not r2.timeout and evaluate(case, r2, n2, v2) is None:
            ctx.inconc("solver_preprocessing", case)
            return
    if bad:
        ctx.violation(bad[0], "ilp", case, bad[1])
        return
    # non-triviality
    copies, con, wts = case.get("copies"), case.get("constraint"), case.get("weights")
    nt = False
    if copies is not None and copies != 1 and copies != [1] * len(case["values"]):
        nt = True
    if wts is not None and len(set(wts)) > 1:
        nt = True
    if con is not None:
        nt = nt or case.get("binding", False) or not r.ok
    ctx.held(key=(case["k"], tuple(case["values"]), tuple(case["objective"]), repr(copies), repr(con), repr(wts), case["pres"]), nontrivial=nt,
             cls=f"ilp/{case['cls']}", sample={"case": case, "result": repr(r.value)[:160] if r.ok else r.tb[:120]})
    ctx.counters["cls_total:" + case["cls"]] += 1


def draw(rng):
    k = rng.choice([1, 2, 2, 3, 3, 4])
    n = rng.randint(1, {1: 6, 2: 6, 3: 6, 4: 5}[k])
    hi = rng.choice([5, 30, 200])
    vals = [rng.randint(0 if rng.random() < 0.2 else 1, hi) for _ in range(n)]
    name = rng.choice(C.OBJ5)
    kp = rng.randint(1, k + 1) if name in ("ksmall", "klarge") else None
    case = {"kind": "ilp", "alg": "ilp", "k": k, "values": vals, "objective": [name, kp], "pres": rng.choice(["list", "dict_str", "names_int"]), "pres_seed": rng.randrange(1 << 30)}
    cls = rng.choice(["plain", "copies", "copies", "constraint", "constraint", "constraint", "weights_uniform", "weights", "copies+constraint", "weights_uniform+constraint"])
    case["cls"] = cls
    if rng.random() < 0.3:
        case["time_limit"] = rng.choice(["inf", 30, 60.0])
    if "copies" in cls:
        if rng.random() < 0.5:
            case["copies"] = rng.choice([0, 1, 2])
        else:
            case["copies"] = [rng.choice([0, 1, 1, 2]) for _ in range(n)]
            while sum(case["copies"]) > 7:
                case["copies"][rng.randrange(n)] = 1
        if isinstance(case["copies"], int) and case["copies"] == 2 and n > 4:
            case["values"] = vals[:4]
        if isinstance(case["copies"], list) and rng.random() < 0.5:
            order = list(range(len(case["copies"])))
            rng.shuffle(order)
            case["copies_dict_order"] = order
    if "constraint" in cls:
        cp = case.get("copies")
        cpl = [1] * len(case["values"]) if cp is None else ([cp] * len(case["values"]) if isinstance(cp, int) else cp)
        expanded = [v for v, c in zip(case["values"], cpl) for _ in range(c)]
        vectors = sorted(O.sum_vectors(expanded, k))
        kind = rng.choice(["min_eq", "max_le", "min_ge"])
        unc = min(O.objval(name, v, kp) for v in vectors)
        ref = rng.choice(vectors)
        pivot = ref[0] if kind != "max_le" else ref[-1]
        c = max(0, pivot + rng.choice([-1, 0, 0, 0, 1, rng.randint(-5, 5), 1000 if rng.random() < 0.1 else 0]))
        case["constraint"] = [kind, c]
        if rng.random() < 0.35:
            # a second constraint in the same list, taken from a (possibly different) reachable vector so that the pair is often jointly feasible and binding
            kind2 = rng.choice(["min_eq", "max_le", "min_ge"])
            ref2 = rng.choice(vectors)
            c2 = max(0, (ref2[0] if kind2 != "max_le" else ref2[-1]) + rng.choice([-1, 0, 0, 1]))
            case["constraint"] = [[kind, c], [kind2, c2]] if rng.random() < 0.5 else [[kind2, c2], [kind, c]]
        feas = [v for v in vectors if constraint_ok(case["constraint"], v)]
        case["binding"] = (not feas) or min(O.objval(name, v, kp) for v in feas) != unc
    if cls == "weights_uniform+constraint":
        # equal weights together with a constraint: the constraint then speaks about sum/w. Power-of-two weights only (exact), including the "shares" 1/numbins that sum to 1
        wgt = rng.choice([1.0 / k if k in (1, 2, 4) else 0.5, 0.5, 0.25, 2.0, 4.0, 1.0])
        case["weights"] = [wgt] * k
        cons = case["constraint"] if isinstance(case["constraint"][0], list) else [case["constraint"]]
        cons = [[kind_, c_ / wgt] for kind_, c_ in cons]
        case["constraint"] = cons if isinstance(case["constraint"][0], list) else cons[0]
    if cls == "weights_uniform":
        # a menu weight, or ANY positive weight that is exact in float64 (integers up to 1000, dyadic fractions): equal weights of whatever size must not change the result
        case["weights"] = [rng.choice(W_POOL) if rng.random() < 0.5 else rng.choice([rng.randint(1, 1000), rng.randint(1, 64) / rng.choice([2, 4, 8, 16, 64])])] * k
    elif cls == "weights":
        case["weights"] = [rng.choice(W_POOL) if rng.random() < 0.7 else rng.choice([rng.randint(1, 200), rng.randint(1, 64) / rng.choice([2, 4, 8])]) for _ in range(k)]
        if len(case["values"]) > 5:
            case["values"] = case["values"][:5]
    return case


def run_shard(spec, rng, ctx):
    end = C.budget(spec)
    while C.now() < end:
        judge(draw(rng), ctx)


def replay(case, ctx):
    judge(case, ctx)
