"""
C08 — partitioning heuristics meet their proven worst-case guarantees (DESIGN.md §5 C08).
Deciding monitor: M1; oracle: O1 exhaustive optimum on small instances, O5 planted optimum and the tight LPT family on large ones; Fraction arithmetic.
"""
import time
from fractions import Fraction as F
from rv.props import common as C
from rv import oracles as O, gen

LEVEL = "exploration"
RULE = ("greedy, kk, multifit (iterations in {1,2,3,5,10,20}), round-robin on small instances with exhaustive optimum (n <= 9, k <= 4), planted perfect partitions "
        "(k 2..8, up to 48 items, T up to 10^6), the tight LPT family, the list-scheduling killer presented ascending, and adaptive ratio-climbing (hill-climb one value at a time "
        "to maximise the observed ratio heuristic/optimum); Karmarkar-Karp additionally on 4-6 bins / 9-12 small items judged against an UPPER bound on the optimum from validated partitions (certificate); non-trivial = the heuristic's largest sum differs from the optimum; distinct on (algorithm, iterations, numbins, value sequence)")
ASSUMPTIONS = ["ratio bounds are checked for k >= 2 only", "bounds are loose: quality regressions inside the bounds are C14's business"]
FLOORS = {"quick": {"distinct_nontrivial": 5000}, "thorough": {"distinct_nontrivial": 25000}}
ALGS = ("greedy", "kk", "multifit", "roundrobin")


def plan(tier, seed):
    n = 16 if tier == "quick" else 64
    b = 30 if tier == "quick" else 90
    return [{"seed": seed * 1000 + i, "shard": i, "budget_s": b, "max_cases": 10 ** 7, "watchdog_s": b * 5 + 120} for i in range(n)]


def optimum(case):
    """(OPT_max, OPT_min) from the planted construction or from O1."""
    if case.get("planted_T") is not None:
        return case["planted_T"], case["planted_T"]
    if case.get("opt_max") is not None:
        return case["opt_max"], case.get("opt_min")
    vs = O.sum_vectors(case["values"], case["k"])
    return min(s[-1] for s in vs), max(s[0] for s in vs)


def judge(case, ctx, want_ratio=False):
    alg, k, vals = case["alg"], case["k"], case["values"]
    ctx.evaluated()
    r, names, vmap = C.run_partition_case(case, "PartitionAndSumsTuple", ctx=ctx, pres="list")
    if r.timeout:
        ctx.inconc("timeout", case)
        return None
    if not r.ok:
        ctx.violation("exception", alg, case, C.exc_witness(r, case) if r.exc is not None else {"none": True})
        return None
    sums, lists = r.value
    s = [sum(b) for b in lists]
    if sorted(x for b in lists for x in b) != sorted(vals):
        ctx.violation("not_a_partition", alg, case, {"bins": lists[:10]})
        return None
    mx, mn = max(s), min(s)
    opt_max, opt_min = optimum(case)
    w = {"sums": s[:12], "opt_max": opt_max, "opt_min": opt_min, "numbins": k}
    big = max(vals)
    bad = None
    if alg == "multifit":
        if len(s) > k:
            bad = ("more_bins_than_requested", {})
        else:
            bound = (F(122, 100) + F(1, 2 ** case["iterations"])) * opt_max
            if k >= 2 and mx > bound:
                bad = ("multifit_ratio_exceeded", {"bound": float(bound)})
    else:
        if len(s) != k:
            bad = ("wrong_bin_count", {})
        elif mx - mn > big:
            bad = ("gap_exceeds_largest_item", {"gap": mx - mn, "largest_item": big})
        elif alg in ("greedy", "kk") and k >= 2 and mx > (F(4, 3) - F(1, 3 * k)) * opt_max:
            bad = ("max_ratio_exceeded", {"bound": float((F(4, 3) - F(1, 3 * k)) * opt_max)})
        elif alg == "greedy" and k >= 2 and opt_min is not None and mn < F(3 * k - 1, 4 * k - 2) * opt_min:
            bad = ("min_ratio_exceeded", {"bound": float(F(3 * k - 1, 4 * k - 2) * opt_min)})
        elif alg == "roundrobin":
            if any(s[i] < s[i + 1] for i in range(k - 1)):
                bad = ("roundrobin_sums_not_non_increasing", {})
            elif max(map(len, lists)) - min(map(len, lists)) > 1:
                bad = ("roundrobin_cardinalities_differ_by_more_than_one", {"cards": list(map(len, lists))})
    if bad:
        ctx.violation(bad[0], alg, case, dict(w, **bad[1]))
        return None
    ctx.held(key=(alg, case.get("iterations"), k, tuple(vals)), nontrivial=mx != opt_max, cls=f"{alg}/{case['cls']}",
             sample={"case": {kk: v for kk, v in case.items() if kk != "values"} | {"values": vals[:40]}, "sums": s[:10], "opt_max": opt_max})
    ctx.counters["alg:" + alg] += 1
    if want_ratio == "min":
        # how close the smallest sum comes to violating its guarantee: OPT_min / min (larger = worse)
        return F(opt_min, mn) if (opt_min and mn) else F(0)
    return F(mx, opt_max) if opt_max else None


def draw(rng, alg):
    kind = rng.choice(["small", "small", "small", "planted", "planted", "lpt_tight", "killer", "ties", "kgtn", "tinyvalues", "tinyvalues", "tinyvalues"])
    if alg == "greedy" and rng.random() < 0.4:
        kind = "tinyvalues"            # greedy alone has a guarantee on its SMALLEST sum; its near-tight instances are of this shape
    case = {"kind": "partition", "alg": alg, "pres": "list", "pres_seed": 0}
    if alg == "multifit":
        case["iterations"] = rng.choice([1, 2, 3, 5, 10, 20])
    if kind in ("small", "ties"):
        k = rng.choice([1, 2, 2, 3, 3, 4])
        n = rng.randint(1, {1: 9, 2: 9, 3: 9, 4: 8}[k])
        vals = gen.part_values(rng, rng.choice(["small", "ties", "zeros", "powers", "onehuge", "equal", "bignear"]) if kind == "small" else "ties", n, k)
        vals = gen.arrange(rng, vals, rng.choice(gen.ORDERS))
        case.update(k=k, values=vals, cls=kind)
    elif kind == "tinyvalues":
        # many items over a tiny value range (near-tight instances for the guarantees are of this shape), more than 2k+1 items, in every arrival order
        k = rng.choice([2, 3, 3, 4])
        n = rng.randint(2 * k + 2, 12 if k <= 3 else 11)
        hi = rng.choice([3, 4, 4, 5])
        vals = gen.arrange(rng, [rng.randint(1, hi) for _ in range(n)], rng.choice(["ascending", "ascending", "descending", "random"]))
        case.update(k=k, values=vals, cls="tinyvalues")
    elif kind == "kgtn":
        k = rng.randint(3, 12)
        n = rng.randint(1, min(k - 1, 6))
        case.update(k=k, values=[rng.randint(0 if rng.random() < 0.2 else 1, rng.choice([3, 50, 10 ** 9])) for _ in range(n)], cls="kgtn")
    elif kind == "planted":
        k = rng.choice([2, 3, 4, 5, 6, 7, 8, 12, 20, 33, 40, 65, 129])
        T = rng.choice([12, 30, 100, 1000, 10 ** 6, 2 ** 40])
        vals = gen.planted_partition(rng, k, rng.randint(k, 48 if k <= 8 else max(200, 3 * k)), T)
        vals = gen.arrange(rng, vals, rng.choice(gen.ORDERS))
        case.update(k=k, values=vals, cls="planted", planted_T=T)
    elif kind == "lpt_tight":
        k = rng.randint(2, 9)
        vals = gen.arrange(rng, gen.lpt_tight(k), rng.choice(gen.ORDERS))
        case.update(k=k, values=vals, cls="lpt_tight", opt_max=3 * k, opt_min=None)
    else:
        k = rng.randint(2, 8)
        case.update(k=k, values=gen.list_scheduling_killer(k), cls="killer_ascending", opt_max=k, opt_min=None)
        if k == 2:
            case["opt_min"] = None
    return case


def judge_certificate(case, ctx):
    """
    Beyond the exhaustive oracle's size (4-6 bins, 9-12 items): the optimal largest sum is bounded from ABOVE by the largest sum of any validated partition
    (here: complete greedy with the min-max objective, greedy, multifit). heuristic_max > ratio * upper_bound implies heuristic_max > ratio * OPT: a sound refutation.
    """
    alg, k, vals = case["alg"], case["k"], case["values"]
    ctx.evaluated()
    best_ub = None
    got = None
    for a, extra in ((alg, {}), ("cg", {"objective": ["minmax", None], "cg_mask": 11}), ("greedy", {}), ("multifit", {"iterations": 10})):
        r, names, vmap = C.run_partition_case(dict(case, alg=a, **extra), "PartitionAndSumsTuple", ctx=ctx, pres="list", timeout=4)
        if r.timeout or not r.ok:
            if a == alg:
                if r.timeout:
                    ctx.inconc("timeout", case)
                else:
                    ctx.violation("exception", alg, case, C.exc_witness(r, case) if r.exc is not None else {"none": True})
                return
            continue
        lists = r.value[1]
        if sorted(x for b in lists for x in b) != sorted(vals) or len(lists) > k:
            if a == alg:
                ctx.violation("not_a_partition", alg, case, {"bins": lists[:10]})
                return
            continue
        s = [sum(b) for b in lists] + [0] * (k - len(lists))
        if a == alg:
            got = s
        if best_ub is None or max(s) < best_ub[0]:
            best_ub = (max(s), a)
    if got is None or best_ub is None:
        return
    mx, mn = max(got), min(got)
    ub, src = best_ub
    w = {"sums": got, "numbins": k, "opt_max_upper_bound": ub, "upper_bound_from": src}
    if mx - mn > max(vals):
        ctx.violation("gap_exceeds_largest_item", alg, case, dict(w, gap=mx - mn, largest_item=max(vals)))
        return
    if alg in ("greedy", "kk") and mx > (F(4, 3) - F(1, 3 * k)) * ub:
        ctx.violation("max_ratio_exceeded", alg, case, dict(w, bound=float((F(4, 3) - F(1, 3 * k)) * ub), note="OPT <= upper bound from a validated partition"))
        return
    ctx.held(key=(alg, "cert", k, tuple(vals)), nontrivial=mx != ub, cls=f"{alg}/certificate", sample={"case": case, **w})
    ctx.counters["certificate_cases"] += 1


def climb(rng, alg, ctx, steps=40):
    """W-climb: hill-climb the observed ratio max/OPT_max from a random start (exhaustive optimum, n <= 8, k <= 3)."""
    k = rng.choice([2, 3, 3, 4])
    n = rng.randint(k + 1, 10 if k <= 3 else 9)
    vals = [rng.randint(1, rng.choice([5, 20])) for _ in range(n)]
    if rng.random() < 0.5:
        vals.sort()
    case = {"kind": "partition", "alg": alg, "k": k, "values": vals, "cls": "climb", "pres": "list", "pres_seed": 0}
    if alg == "multifit":
        case["iterations"] = rng.choice([1, 3, 10])
    which = "min" if (alg == "greedy" and rng.random() < 0.5) else "max"      # greedy also has a guarantee on its SMALLEST sum
    best = judge(case, ctx, want_ratio=which)
    for _ in range(steps):
        if best is None:
            return
        v2 = list(case["values"])
        i = rng.randrange(n)
        v2[i] = max(1, v2[i] + rng.choice([-3, -2, -1, 1, 2, 3]))
        if rng.random() < 0.2:
            j = rng.randrange(n)
            v2[i], v2[j] = v2[j], v2[i]          # order moves too: a heuristic that does not fully sort is order-sensitive
        c2 = dict(case, values=v2)
        r2 = judge(c2, ctx, want_ratio=which)
        if r2 is not None and r2 >= best:
            if r2 > best:
                ctx.counters["climb_improvements"] += 1
            case, best = c2, r2
    if best is not None:
        ctx.reach["climb_best_ratio_x1000@max"] = max(ctx.reach["climb_best_ratio_x1000@max"], int(best * 1000))


def run_shard(spec, rng, ctx):
    end = C.budget(spec)
    i = 0
    while i < spec["max_cases"] and C.now() < end:
        alg = ALGS[i % 4]
        if alg == "kk" and i % 12 != 1:
            # Karmarkar-Karp beyond the exhaustive oracle: 4-6 bins, 9-12 small items (its rare ordering defects need >= 4 bins and >= 9 items)
            k = rng.choice([4, 5, 5, 5, 6])
            judge_certificate({"kind": "partition", "alg": "kk", "k": k, "values": [rng.randint(1, rng.choice([8, 12, 20])) for _ in range(rng.randint(9, 12))],
                               "cls": "certificate", "pres": "list", "pres_seed": 0}, ctx)
            i += 1
            continue
        if i % 10 == 9 and alg != "roundrobin":
            climb(rng, alg, ctx)
        else:
            judge(draw(rng, alg), ctx)
        i += 1


def replay(case, ctx):
    judge(case, ctx)
