"""
C15 — calls are pure: inputs untouched, results repeatable, no state across calls (DESIGN.md §5 C15). Quantifier: histories.
Deciding monitor: M5. Each shard plays random HISTORIES of calls in one interpreter (all algorithms, presentations, failing calls, valueof failpoints; names, values and sizes drawn from a
small pool so that calls collide). For every call: (a) byte-exact snapshot of the argument before/after; (b) with probability 1/3 the identical call is repeated at once; (c) the result is
compared with the result of the same call executed FIRST in a pristine interpreter state (a zygote process forked right after `import prtpy` serves each reference in a fresh fork).
"""
import json, os, random, signal, struct, sys, time, traceback
from rv.props import common as C
from rv import gen
from rv.harness import monitored_call, present, plain, snapshot_arg

LEVEL = "exploration"
RULE = ("histories of 20-90 calls, each played in its own fork of a pristine worker (so first-call-in-the-process situations occur in every history), mixing 11 partitioners, 5 packers, 3 coverers, 7 presentations, 10 output types, failing calls (oversize items, invalid cbldm arguments, infeasible ILP constraints) and "
        "valueof failpoints (the value function raises at its n-th call, n from 1 to 3000, so that searches are aborted in mid-tree), each failing call followed (60%) by a battery of 5 probe calls to the search algorithms; value vectors, name sets and sizes come from a pool of 8 (six ordinary vectors plus two degenerate ones such as [0,0] or [7]) so that successive calls collide on names with different values; about 0.2% of the calls are larger integer programs (10 items x 5 bins = 50 integer variables), always repeated at once (no fresh-state reference for them); "
        "evaluations = calls compared; non-trivial = calls sitting in a history that already contains >= 1 failing call and >= 5 distinct algorithms; distinct on (call, position-independent)")
ASSUMPTIONS = ["the fresh-state reference is a fork of a process that has only imported prtpy (and mip)", "a module-state digest change is recorded, not alarmed (a future cache would be legitimate)"]
FLOORS = {"quick": {"distinct_nontrivial": 400, "fresh_references": 800, "repeat_pairs": 200}, "thorough": {"distinct_nontrivial": 2000, "fresh_references": 4000, "repeat_pairs": 1000}}
OTS = ("Sums", "LargestSum", "SmallestSum", "ExtremeSums", "SortedSums", "Difference", "BinCount", "Partition", "PartitionAndSumsTuple", "PartitionAndSums")


def plan(tier, seed):
    n = 16 if tier == "quick" else 64
    b = 45 if tier == "quick" else 120
    return [{"seed": seed * 1000 + i, "shard": i, "budget_s": b, "watchdog_s": b * 6 + 200} for i in range(n)]


class Failpoint(Exception):
    pass


def exec_call(case):
    """Perform one call described by pure data; return a canonical, comparable description of what came back."""
    A = C.algos()
    prng = random.Random(case.get("pres_seed", 0))
    items, valueof, names, vmap = present(case["values"], case["pres"], prng)
    fp = case.get("fail_valueof_at")
    if fp is not None:
        inner = valueof if valueof is not None else (items.__getitem__ if isinstance(items, dict) else (lambda x: x))
        cnt = [0]

        def valueof(x, inner=inner):
            cnt[0] += 1
            if cnt[0] == fp:
                raise Failpoint("injected")
            return inner(x)
    kw = {}
    if case["kind"] == "partition":
        kw = C.partition_kwargs(case)
        if case.get("cbldm_time_limit") is not None:
            kw["time_limit"] = case["cbldm_time_limit"]
        if case.get("ilp_infeasible"):
            kw["additional_constraints"] = lambda sums: [sums[0] == -5]
        adaptor, alg, size = A.prtpy.partition, A.partitioners[case["alg"]], case["k"]
    else:
        adaptor, alg, size = A.prtpy.pack, (A.packers if case["kind"] == "pack" else A.coverers)[case["alg"]], case["C"]
    r = monitored_call(adaptor, alg, size, items, valueof, A.outputtypes[case["ot"]], timeout=15, **kw)
    if r.timeout:
        return {"timeout": True}
    if r.ok:
        v = r.value
        if case["ot"] == "PartitionAndSums":
            v = {"sums": plain(v.sums), "lists": plain(v.lists)}
        return {"ok": True, "value": plain(v), "args_changed": bool(r.args_changed)}
    return {"ok": False, "exc": type(r.exc).__name__, "msg": str(r.exc)[:80], "args_changed": bool(r.args_changed)}


# ------------------------------------------------------------------ zygote: pristine-state reference server
class Zygote:
    def __init__(self):
        self.req_r, self.req_w = os.pipe()
        self.res_r, self.res_w = os.pipe()
        self.pid = os.fork()
        if self.pid == 0:
            os.close(self.req_w); os.close(self.res_r)
            self._serve()
            os._exit(0)
        os.close(self.req_r); os.close(self.res_w)

    @staticmethod
    def _readn(fd, n):
        buf = b""
        while len(buf) < n:
            c = os.read(fd, n - len(buf))
            if not c:
                raise EOFError
            buf += c
        return buf

    def _serve(self):
        signal.signal(signal.SIGALRM, signal.SIG_DFL)
        while True:
            try:
                n = struct.unpack("<I", self._readn(self.req_r, 4))[0]
            except EOFError:
                return
            case = json.loads(self._readn(self.req_r, n))
            pid = os.fork()
            if pid == 0:
                try:
                    from rv.harness import _on_alarm
                    out = exec_call(case)
                except BaseException as e:
                    out = {"harness_error": repr(e)[:200]}
                data = json.dumps(out).encode()
                os.write(self.res_w, struct.pack("<I", len(data)) + data)
                os._exit(0)
            os.waitpid(pid, 0)

    def fresh(self, case):
        data = json.dumps(case).encode()
        os.write(self.req_w, struct.pack("<I", len(data)) + data)
        n = struct.unpack("<I", self._readn(self.res_r, 4))[0]
        return json.loads(self._readn(self.res_r, n))

    def close(self):
        try:
            os.close(self.req_w)
            os.waitpid(self.pid, 0)
        except Exception:
            pass


def module_state_digest():
    """Digest of module-level mutable containers and objective singletons in prtpy.* (recorded, not alarmed)."""
    out = []
    for name, m in sorted(sys.modules.items()):
        if not name.startswith("prtpy") or m is None:
            continue
        for k, v in sorted(vars(m).items()):
            if isinstance(v, (list, dict, set)) and not k.startswith("__"):
                out.append((name, k, len(v)))
    obj = sys.modules.get("prtpy.objectives")
    if obj:
        for k in ("MaximizeSmallestSum", "MinimizeLargestSum", "MinimizeDifference"):
            out.append((k, repr(sorted(vars(getattr(obj, k)).items()))))
    return hash(repr(out))


# ------------------------------------------------------------------ histories
def make_pool(rng):
    pool = []
    # degenerate vectors (one or two items, zeros only): "first use" special cases of an algorithm are of this shape
    pool += rng.sample([[0, 0], [0], [7], [0, 0, 0], [3, 3], [0, 5], [1, 1, 1, 1]], 2)
    for j in range(6):
        # three short vectors (every algorithm) and three longer ones (so that the search algorithms really search)
        n = rng.choice([4, 5, 5, 6, 6, 7]) if j < 3 else rng.choice([8, 9, 9, 10])
        cls = rng.choice(["small", "ties", "zeros", "equal"]) if j < 3 else rng.choice(["small", "small", "ties"])
        pool.append(gen.part_values(rng, cls, n, 3))
    return pool


SEARCHERS = ("snp", "rnp", "ckk", "cg", "dp", "cbldm")


def draw_call(rng, pool, force_alg=None):
    if force_alg is None and rng.random() < 0.002:
        # a LARGER integer program (10 items x 5 bins, or 11-13 items x 4 bins: 50 or more integer variables): solver options that depend on the model size (threads, presolve,
        # cut passes) are only switched on here; the call is always repeated at once and compared with the fresh state
        k, n = 5, 10          # 50 integer variables; solves in about a second (11-13 items x 4 bins take up to ten times longer and starved the histories of volume)
        return {"values": [rng.randint(1, 200) for _ in range(n)], "pres": rng.choice(["list", "dict_str"]), "pres_seed": 1, "ot": rng.choice(["Partition", "Sums", "PartitionAndSumsTuple"]),
                "kind": "partition", "alg": "ilp", "k": k, "objective": [rng.choice(["maxmin", "minmax", "diff"]), None], "cls": "ilp_large", "always_repeat": True}
    vals = list(rng.choice(pool))
    which = rng.randrange(19) if force_alg is None else C.ALL_PART.index(force_alg)
    if force_alg is None and rng.random() < 0.4:
        which = C.ALL_PART.index(rng.choice(SEARCHERS))      # the stateful-looking algorithms get 40% of the calls
    if force_alg is not None:
        vals = list(rng.choice(sorted(pool, key=len)[-3:]))          # probe calls use the longer vectors of the pool: the searches have something to do
    case = {"values": vals, "pres": rng.choice(C.PRESENTATIONS + ("array_f", "array_u")), "pres_seed": rng.choice([1, 2]), "ot": rng.choice(OTS)}
    if which < 11:
        alg = C.ALL_PART[which]
        k = 2 if alg == "cbldm" else (rng.choice([1, 2, 3, 3, 4, 4, 6, 9]) if force_alg is None else rng.choice([3, 4, 5]))
        if k >= 6 and alg in ("rnp", "ckk", "snp", "dp", "ilp", "cg"):
            k = 4 if alg != "cg" else k          # cost envelope / known-finding region (rnp >= 6 bins)
        case.update(kind="partition", alg=alg, k=k)
        if alg in ("cg", "dp", "ilp"):
            name = rng.choice(C.OBJ5)
            case["objective"] = [name, rng.randint(1, k + 1) if name in ("ksmall", "klarge") else None]
        if alg == "cg":
            case["cg_mask"] = rng.randrange(16)
        if alg == "multifit":
            case["iterations"] = rng.choice([1, 3, 10])
        if alg == "cbldm":
            case["cbldm_d"] = rng.choice([None, 1, 2])
        if alg == "ilp":
            case["values"] = [min(v, 200) for v in vals]
        if alg in ("dp", "ilp"):
            case["values"] = case["values"][:7]               # cost envelope
        if len(case["values"]) >= 9 and alg in ("snp", "rnp", "ckk") and case["k"] >= 5:
            case["k"] = 4
        x = rng.random()
        if x < 0.08:
            if alg == "cbldm":
                case["cbldm_time_limit"] = rng.choice([0, -1]); case["expect_fail"] = True
            elif alg == "ilp":
                case["ilp_infeasible"] = True; case["expect_fail"] = True
    elif which < 16:
        Cs = max(vals + [1]) + rng.choice([0, 1, 5])
        case.update(kind="pack", alg=C.PACKERS[which - 11], C=Cs)
        if rng.random() < 0.15:
            case["C"] = max(1, max(vals) - 1); case["expect_fail"] = True     # some item is oversize
    else:
        case.update(kind="cover", alg=C.COVERERS[which - 16], C=max(1, sum(vals) // rng.choice([2, 3, 4])), values=[max(1, v) for v in vals])
    fp_rate = 0.07 if case.get("alg") not in SEARCHERS else 0.15
    if force_alg is None and rng.random() < fp_rate:
        # the value function raises at its n-th call: small n aborts the set-up, large n aborts a search algorithm somewhere in the middle of its tree
        case["fail_valueof_at"] = rng.choice([rng.randint(1, 3 * len(vals)), rng.randint(10, 200), rng.randint(200, 3000)]); case["expect_fail"] = True
    return case


def comparable(res):
    return {k: v for k, v in res.items() if k != "args_changed"}


def run_history(rng, pool, zy, ctx, length):
    algs_seen, failing_seen = set(), 0
    digest = module_state_digest()
    probes = []
    for pos in range(length):
        # after a failing call, a battery of probe calls to the search algorithms follows (state left behind by an aborted search shows in the next searches)
        case = draw_call(rng, pool, force_alg=probes.pop()) if probes else draw_call(rng, pool)
        ctx.evaluated()
        res = exec_call(case)
        d2 = module_state_digest()
        if d2 != digest:
            ctx.reach["module_state_digest_changes"] += 1
            digest = d2
        if res.get("timeout"):
            ctx.inconc("timeout", case)
            continue
        alg = case["alg"]
        w = {"position_in_history": pos, "algorithms_before": sorted(algs_seen)[:12], "failing_calls_before": failing_seen}
        if res.get("args_changed"):
            ctx.violation("argument_modified", alg, case, w)
            continue
        if rng.random() < 0.34 or case.get("always_repeat"):
            ctx.counters["repeat_pairs"] += 1
            if case.get("cls") == "ilp_large":
                ctx.counters["ilp_large_repeated"] += 1
            res2 = exec_call(case)
            if not res2.get("timeout") and comparable(res2) != comparable(res):
                ctx.violation("repeated_call_differs", alg, case, dict(w, first=res, second=res2))
                continue
        if (case["alg"] not in SEARCHERS and rng.random() < 0.5) or case.get("cls") == "ilp_large":
            # the fresh-state reference costs a fork: always taken for the search algorithms, for half of the simple heuristics
            ctx.held(cls=f"{case['kind']}/{alg}/no_reference")
            algs_seen.add(alg)
            if not res.get("ok"):
                failing_seen += 1
            continue
        ref = zy.fresh(case)
        ctx.counters["fresh_references"] += 1
        if ref.get("harness_error"):
            ctx.inconc("fresh_reference_failed", case)
            continue
        if ref.get("timeout"):
            ctx.inconc("timeout", case)
            continue
        if comparable(ref) != comparable(res):
            ctx.violation("result_depends_on_history", alg, case, dict(w, in_history=res, fresh=ref))
            continue
        nontrivial = failing_seen >= 1 and len(algs_seen) >= 5
        ctx.held(key=(alg, case.get("k", case.get("C")), tuple(case["values"]), case["pres"], case["pres_seed"], case["ot"], tuple(case.get("objective") or ()), case.get("cg_mask"),
                      case.get("fail_valueof_at"), case.get("expect_fail")),
                 nontrivial=nontrivial, cls=f"{case['kind']}/{alg}", sample={"case": case, "result": res, "position_in_history": pos})
        algs_seen.add(alg)
        if not res.get("ok"):
            failing_seen += 1
            ctx.counters["failing_calls"] += 1
            if not probes and rng.random() < 0.6:
                probes = [rng.choice(["snp", "snp", "rnp", "ckk", "cg"]) for _ in range(5)]
                ctx.counters["probe_batteries_after_failure"] += 1
            if res.get("exc") == "Failpoint":
                ctx.counters["valueof_failpoints_fired"] += 1


def run_shard(spec, rng, ctx):
    C.algos()               # import prtpy (+mip) before forking the zygote: its state is the pristine reference
    import mip              # noqa: F401
    zy = Zygote()
    end = time.time() + float(spec.get("budget_s", 60))      # wall clock: most of C15's work happens in the forked reference processes
    try:
        while time.time() < end:
            # every history is played in its own fork of this (still pristine) worker: "first call in the process" situations occur once per HISTORY, not once per shard
            seed = rng.randrange(1 << 30)
            r, w = os.pipe()
            pid = os.fork()
            if pid == 0:
                os.close(r)
                try:
                    from rv.harness import Ctx
                    cctx = Ctx(ctx.prop, spec)
                    cctx.debug_logging = getattr(ctx, "debug_logging", False)
                    crng = random.Random(seed)
                    run_history(crng, make_pool(crng), zy, cctx, crng.randint(20, 90))
                    cctx.counters["histories"] += 1
                    data = json.dumps(cctx.dump()).encode()
                except BaseException as e:
                    data = json.dumps({"counters": {"history_harness_errors": 1}, "inconclusive": {"history_harness_error:" + type(e).__name__: 1}}).encode()
                with os.fdopen(w, "wb") as f:
                    f.write(data)
                os._exit(0)
            os.close(w)
            with os.fdopen(r, "rb") as f:
                data = f.read()
            os.waitpid(pid, 0)
            if data:
                ctx.merge(json.loads(data))
            else:
                ctx.inconc("history_process_died")
    finally:
        zy.close()


def replay(case, ctx):
    """Replay = the call alone: argument purity, repeatability, and comparison with a fresh state after a short fixed prelude history."""
    C.algos()
    zy = Zygote()
    try:
        rng = random.Random(7)
        pool = [list(case["values"])] + make_pool(rng)
        for _ in range(40):
            exec_call(draw_call(rng, pool))
        ctx.evaluated()
        res = exec_call(case)
        res2 = exec_call(case)
        ref = zy.fresh(case)
        if res.get("args_changed"):
            ctx.violation("argument_modified", case["alg"], case, {})
        elif comparable(res) != comparable(res2):
            ctx.violation("repeated_call_differs", case["alg"], case, {"first": res, "second": res2})
        elif comparable(res) != comparable(ref):
            ctx.violation("result_depends_on_history", case["alg"], case, {"in_history": res, "fresh": ref})
        else:
            ctx.held(cls="replay")
    finally:
        zy.close()
