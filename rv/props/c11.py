"""
C11 — anytime algorithms are safe to interrupt and only ever improve (DESIGN.md §5 C11). Level: fault_enumeration.
Deciding monitor: M4 counting clock. The module attribute `time` of complete_greedy / cbldm is replaced by a clock that returns 1, 2, 3, ...; one unlimited run
learns R = number of clock reads, then the run is repeated for every time limit L = 0 .. R+1, so that EVERY interruption point of that execution is produced exactly once.
The complete Karmarkar-Karp generator is observed at every yield (deep copy at yield time).
"""
import copy, math, time
from collections import Counter
import numpy as np
from rv.props import common as C
from rv import oracles as O, refmodels as R, gen
from rv.harness import mod, cg_config, deadline, CaseTimeout
from rv.monitors import counting_clock

LEVEL = "fault_enumeration"
HUGE_LIMIT = 10.0 ** 15      # a finite limit that no counted run reaches: used when an implementation reads the clock only under a finite limit
RULE = ("per generated input (complete greedy: n <= 8, numbins 1..4, 5 objectives, sampled switch masks, zeros/ties/small classes; cbldm: n <= 10 with and without cardinality bound; "
        "ckk generator: numbins 2..4, both managers, plus a volume focus of ~10^5 cheap two-/three-way cases per run) the interruption points are enumerated exhaustively with a counting clock (all limits 0..R+1 when R <= 400, else first/last 50, the neighbours of "
        "every incumbent change and a seeded sample up to 400); evaluations = interrupted runs; non-trivial = inputs whose unlimited execution went through >= 2 incumbent improvements; "
        "distinct on (algorithm, config, numbins, values)")
ASSUMPTIONS = ["interruption is only possible where the code reads the clock through a patchable module-level name; 0 reads => inconclusive",
               "no-solution-yet results: complete greedy None, cbldm its initial placeholder ([0, inf], [0, inf])"]
FLOORS = {"quick": {"distinct_nontrivial": 40, "interrupted_runs": 20000, "clock_reads": 1000}, "thorough": {"distinct_nontrivial": 200, "interrupted_runs": 100000, "clock_reads": 10000}}
OBJ3 = ("maxmin", "minmax", "diff")


def plan(tier, seed):
    n = 16 if tier == "quick" else 64
    b = 45 if tier == "quick" else 130
    return [{"seed": seed * 1000 + i, "shard": i, "budget_s": b, "watchdog_s": b * 6 + 200} for i in range(n)]


def limits_for(Rreads, change_points, rng, lo=0):
    if Rreads <= 400:
        return list(range(lo, Rreads + 2)), True
    s = set(range(lo, lo + 50)) | set(range(Rreads - 48, Rreads + 2))
    for c in change_points:
        s |= {c - 1, c, c + 1}
    pool = [x for x in range(lo, Rreads + 2) if x not in s]
    s |= set(rng.sample(pool, max(0, min(len(pool), 400 - len(s)))))
    return sorted(x for x in s if lo <= x <= Rreads + 1), False


# ------------------------------------------------------------------ complete greedy
def judge_cg(case, ctx, rng):
    A = C.algos()
    cgm = mod("prtpy.partitioning.complete_greedy")
    k, vals = case["k"], case["values"]
    name, kp = case["objective"]
    objective = A.objective(name, kp, case=case)
    kw = cg_config(case["cg_mask"])
    contents = case.get("manager", "contents") == "contents"
    mk = (A.prtpy.BinnerKeepingContents if contents else A.prtpy.BinnerKeepingSums)
    vectors = O.sum_vectors(vals, k)
    opt = O.opt_partition(vals, k, name, kp, vectors)
    lpt = Counter(sum(b) for b in R.lpt(vals, k))
    lpt_value = O.objval(name, list(lpt.elements()), kp)
    greedy_forms = [lpt]
    h3 = bool(case["cg_mask"] >> 2 & 1) and name == "minmax"
    if h3:
        # with heuristic 3 switched on (min-max only) the first leaf MAY be LPT cut short by Korf's documented rule: same largest sum, other bins may differ. Plain LPT
        # stays acceptable: the library applies the rule only when it recognises the objective (it does not for an equal-but-not-identical objective instance)
        greedy_forms.append(Counter(R.lpt_with_heuristic3(vals, k)))

    def run(limit):
        with counting_clock(cgm) as clk:
            with deadline(20):
                out = cgm.anytime(mk(), k, list(vals), objective=objective, time_limit=limit, **kw)
        return copy.deepcopy(out), clk.n

    def value_of(out):
        """Validate a non-None result, return its objective value (own definition)."""
        if contents:
            sums, lists = out
            if len(lists) != k or not O.is_partition_of(lists, vals):
                raise Bad("interrupted_result_is_not_a_partition", {"bins": [list(map(int, b)) for b in lists]})
            s = [sum(b) for b in lists]
            if [float(x) for x in sums] != [float(x) for x in s]:
                raise Bad("interrupted_result_sums_inconsistent", {"sums": [float(x) for x in sums], "bins": [list(map(int, b)) for b in lists]})
        else:
            s = [int(x) for x in out]
            if tuple(sorted(s)) not in vectors:
                raise Bad("interrupted_result_is_not_a_reachable_sum_vector", {"sums": s})
        return O.objval(name, s, kp), Counter(s)

    try:
        full, Rreads = run(math.inf)
    except CaseTimeout:
        ctx.inconc("timeout", case)
        return
    except Exception as e:
        ctx.violation("exception", "cg", case, {"exc": repr(e)[:200], "limit": "inf"})
        return
    if Rreads == 0:
        # an implementation may consult the clock only when there is a finite limit: count the reads of an effectively unlimited run instead
        try:
            full_finite, Rreads = run(HUGE_LIMIT)
        except CaseTimeout:
            ctx.inconc("timeout", case)
            return
        except Exception as e:
            ctx.violation("exception", "cg", case, {"exc": repr(e)[:200], "limit": HUGE_LIMIT})
            return
        ctx.counters["clock_read_only_with_finite_limit"] += 1
    ctx.counters["clock_reads"] += Rreads
    if Rreads == 0:
        ctx.inconc("clock_never_read", case)
        return
    try:
        if full is None:
            raise Bad("unlimited_run_returned_no_solution", {})
        v, _ = value_of(full)
        if v != opt:
            raise Bad("unlimited_result_not_optimal", {"got": v, "opt": opt})
        # pass 1 (cheap, exact): every limit; find incumbent change points
        lims, exhaustive = limits_for(Rreads, [], rng)
        if not exhaustive:
            # learn change points from a coarse scan first
            coarse = list(range(0, Rreads + 2, max(1, Rreads // 200)))
            prevv, cps = None, []
            for L in coarse:
                out, _ = run(L)
                vv = None if out is None else value_of(out)[0]
                if vv != prevv:
                    cps.append(L)
                prevv = vv
            lims, _ = limits_for(Rreads, cps, rng)
        prev, first_seen, improvements = None, False, 0
        for L in lims:
            ctx.evaluated()
            ctx.counters["interrupted_runs"] += 1
            out, _ = run(L)
            if out is None:
                ctx.counters["no_solution_yet"] += 1
                if prev is not None:
                    raise Bad("solution_lost_when_limit_grows", {"limit": L, "previous_value": prev})
                continue
            v, ms = value_of(out)
            if not first_seen:
                first_seen = True
                if ms not in greedy_forms or v != lpt_value:
                    raise Bad("first_solution_is_not_the_greedy_one", {"limit": L, "sums": sorted(ms.elements()), "lpt": sorted(lpt.elements()), "heuristic_3": h3,
                                                                       "value": v, "lpt_value": lpt_value})
                if h3:
                    ctx.counters["first_solution_checked_against_lpt_with_heuristic_3"] += 1
            if prev is not None and v > prev:
                raise Bad("objective_got_worse_as_limit_grew", {"limit": L, "value": v, "previous": prev})
            if prev is not None and v < prev:
                improvements += 1
            prev = v
        if prev != opt:
            raise Bad("last_limit_not_optimal", {"got": prev, "opt": opt, "reads": Rreads})
    except Bad as b:
        ctx.violation(b.kind, "cg", case, dict(b.witness, reads=Rreads))
        return
    except CaseTimeout:
        ctx.inconc("timeout", case)
        return
    except Exception as e:
        import traceback
        ctx.violation("exception", "cg", case, {"exc": repr(e)[:200], "tb": traceback.format_exc()[-400:]})
        return
    ctx.counters["exhaustive_inputs" if exhaustive else "sampled_inputs"] += 1
    ctx.held(key=("cg", name, kp, case["cg_mask"], k, tuple(vals), contents), nontrivial=improvements >= 2, cls=f"cg/{name}",
             sample={"case": case, "clock_reads": Rreads, "limits_enumerated": len(lims), "incumbent_improvements": improvements + 1, "optimum": opt})
    ctx.counters["inputs:cg"] += 1


class Bad(Exception):
    def __init__(self, kind, witness):
        self.kind, self.witness = kind, witness


# ------------------------------------------------------------------ cbldm
def judge_cbldm(case, ctx, rng):
    A = C.algos()
    cbm = mod("prtpy.partitioning.cbldm")
    vals, d = case["values"], case.get("cbldm_d")
    kw = {} if d is None else {"partition_difference": d}
    opt = O.two_way_card_opt(vals, d)

    def run(limit):
        with counting_clock(cbm) as clk:
            with deadline(20):
                out = cbm.cbldm(A.prtpy.BinnerKeepingContents(), 2, list(vals), time_limit=limit, **kw)
        return copy.deepcopy(out), clk.n

    def value_of(out):
        sums, lists = out
        if list(sums) == [0, np.inf] and list(lists) == [0, np.inf]:
            return None
        try:
            ok = len(lists) == 2 and O.is_partition_of(lists, vals)
        except TypeError:
            ok = False
        if not ok:
            raise Bad("interrupted_result_is_neither_placeholder_nor_partition", {"result": repr(out)[:200]})
        if d is not None and abs(len(lists[0]) - len(lists[1])) > d:
            raise Bad("cardinality_bound_violated", {"bins": [list(map(int, b)) for b in lists], "bound": d})
        return abs(sum(lists[0]) - sum(lists[1]))

    try:
        full, Rreads = run(math.inf)
        if Rreads == 0:
            _, Rreads = run(HUGE_LIMIT)          # the clock may be consulted only when there is a finite limit
            ctx.counters["clock_read_only_with_finite_limit"] += 1
        ctx.counters["clock_reads"] += Rreads
        if Rreads == 0:
            ctx.inconc("clock_never_read", case)
            return
        fv = value_of(full)
        if opt is None:
            # no partition satisfies the bound (cannot happen for d >= 1): placeholder is the only honest answer
            if fv is not None:
                raise Bad("returned_partition_for_infeasible_bound", {})
        elif fv != opt:
            raise Bad("unlimited_result_not_optimal", {"got": fv, "opt": opt})
        lims, exhaustive = limits_for(Rreads, [], rng, lo=1)
        prev, improvements = None, 0
        for L in lims:
            ctx.evaluated()
            ctx.counters["interrupted_runs"] += 1
            out, _ = run(L)
            v = value_of(out)
            if v is None:
                ctx.counters["no_solution_yet"] += 1
                if prev is not None:
                    raise Bad("solution_lost_when_limit_grows", {"limit": L})
                continue
            if prev is not None and v > prev:
                raise Bad("objective_got_worse_as_limit_grew", {"limit": L, "value": v, "previous": prev})
            if prev is not None and v < prev:
                improvements += 1
            prev = v
        if prev != opt:
            raise Bad("last_limit_not_optimal", {"got": prev, "opt": opt})
    except Bad as b:
        ctx.violation(b.kind, "cbldm", case, b.witness)
        return
    except CaseTimeout:
        ctx.inconc("timeout", case)
        return
    except Exception as e:
        import traceback
        ctx.violation("exception", "cbldm", case, {"exc": repr(e)[:200], "tb": traceback.format_exc()[-400:]})
        return
    ctx.counters["exhaustive_inputs" if exhaustive else "sampled_inputs"] += 1
    ctx.held(key=("cbldm", d, tuple(vals)), nontrivial=improvements >= 2, cls="cbldm/" + ("bounded" if d else "unbounded"),
             sample={"case": case, "clock_reads": Rreads, "limits_enumerated": len(lims), "incumbent_improvements": improvements + 1, "optimum": opt})
    ctx.counters["inputs:cbldm"] += 1


# ------------------------------------------------------------------ ckk generator
def judge_ckkgen(case, ctx, rng):
    A = C.algos()
    ckk = mod("prtpy.partitioning.complete_karmarkar_karp_sy")
    k, vals = case["k"], case["values"]
    contents = case.get("manager", "contents") == "contents"
    vectors = O.sum_vectors(vals, k)
    opt = O.opt_partition(vals, k, "diff", None, vectors)
    mk = (A.prtpy.BinnerKeepingContents if contents else A.prtpy.BinnerKeepingSums)
    prev, n_y = None, 0
    try:
        with deadline(20):
            for part in ckk.generator(mk(), k, list(vals)):
                snap = copy.deepcopy(part)          # state at yield time
                ctx.evaluated()
                ctx.counters["generator_yields"] += 1
                n_y += 1
                if contents:
                    sums, lists = snap
                    if len(lists) != k or not O.is_partition_of(lists, vals):
                        raise Bad("yielded_array_is_not_a_partition", {"bins": [list(map(int, b)) for b in lists], "yield": n_y})
                    s = [sum(b) for b in lists]
                    if [float(x) for x in sums] != [float(x) for x in s]:
                        raise Bad("yielded_sums_inconsistent_with_contents", {"yield": n_y})
                else:
                    s = [int(x) for x in snap]
                    if tuple(sorted(s)) not in vectors:
                        raise Bad("yielded_sums_not_reachable", {"sums": s, "yield": n_y})
                v = max(s) - min(s)
                if prev is not None and not v < prev:
                    raise Bad("yield_not_strictly_better_than_previous", {"value": v, "previous": prev, "yield": n_y})
                prev = v
        if prev is None:
            raise Bad("generator_yielded_nothing", {})
        if prev != opt:
            raise Bad("last_yield_not_optimal", {"got": prev, "opt": opt})
    except Bad as b:
        ctx.violation(b.kind, "ckk_generator", case, b.witness)
        return
    except CaseTimeout:
        ctx.inconc("timeout", case)
        return
    except Exception as e:
        import traceback
        ctx.violation("exception", "ckk_generator", case, {"exc": repr(e)[:200], "tb": traceback.format_exc()[-400:]})
        return
    ctx.held(key=("ckkgen", k, tuple(vals), contents), nontrivial=n_y >= 3, cls="ckk_generator/" + ("contents" if contents else "sums"),
             sample={"case": case, "yields": n_y, "optimum": opt})
    ctx.counters["inputs:ckkgen"] += 1


def draw(rng, i):
    which = i % 5
    if which in (0, 1, 2):
        k = rng.choice([1, 2, 2, 3, 3, 4])
        n = rng.randint(1, {1: 6, 2: 8, 3: 7, 4: 6}[k])
        cls = rng.choice(["small", "small", "ties", "zeros", "equal", "nearperfect", "big", "bignear"])
        name = rng.choice(OBJ3 + OBJ3 + ("ksmall", "klarge"))
        kp = rng.randint(1, k + 1) if name in ("ksmall", "klarge") else None
        return {"kind": "cg", "alg": "cg", "k": k, "values": gen.part_values(rng, cls, n, k), "cls": cls, "objective": [name, kp],
                "cg_mask": rng.randrange(16), "manager": rng.choice(["contents", "contents", "sums"])}
    if which == 3:
        n = rng.randint(1, 10)
        cls = rng.choice(["small", "ties", "zeros", "equal", "big", "bignear", "bignear"])
        return {"kind": "cbldm", "alg": "cbldm", "k": 2, "values": gen.part_values(rng, cls, n, 2), "cls": cls, "cbldm_d": rng.choice([None, None, 1, 2, 3])}
    k = rng.choice([2, 3, 3, 4])
    n = rng.randint(1, {2: 10, 3: 8, 4: 7}[k])
    cls = rng.choice(["small", "small", "ties", "zeros", "nearperfect", "bignear"])
    return {"kind": "ckkgen", "alg": "ckkgen", "k": k, "values": gen.part_values(rng, cls, n, k), "cls": cls, "manager": rng.choice(["contents", "sums"])}


JUDGES = {"cg": judge_cg, "cbldm": judge_cbldm, "ckkgen": judge_ckkgen}


def run_shard(spec, rng, ctx):
    end = C.budget(spec)
    # 30% of the budget: a volume focus on the CKK generator (cheap two- and three-way cases with mid-sized values: a generator that discards a heap it
    # wrongly believes it has seen ends on a non-optimal partition only on ~1e-5 of such inputs)
    focus_end = C.now() + 0.3 * float(spec.get("budget_s", 60))
    while C.now() < focus_end:
        k = rng.choice([2, 2, 2, 2, 3])
        n = rng.choice([7, 8, 8, 8, 9]) if k == 2 else rng.randint(6, 7)
        judge_ckkgen({"kind": "ckkgen", "alg": "ckkgen", "k": k, "values": [rng.randint(5, 30) for _ in range(n)], "cls": "generator_focus",
                      "manager": rng.choice(["sums", "sums", "sums", "sums", "contents"])}, ctx, rng)
        ctx.counters["generator_focus_cases"] += 1
    i = 0
    while C.now() < end:
        case = draw(rng, i)
        JUDGES[case["kind"]](case, ctx, rng)
        i += 1


def replay(case, ctx):
    import random
    JUDGES[case["kind"]](case, ctx, random.Random(0))
