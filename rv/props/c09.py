"""
C09 — fit heuristics keep the any-fit invariant and their bin-count bounds (DESIGN.md §5 C09).
Deciding monitor: M1 on prtpy.pack(..., Partition); the invariant is checked on the result itself (bin order and item order are placement order);
OPT from O2 (small) or planted perfect packings (large).
"""
import time
from fractions import Fraction as F
from rv.props import common as C
from rv import oracles as O, gen, refmodels as R

LEVEL = "exploration"
RULE = ("bounded-exhaustive: every arrival sequence of <= 4 (thorough 5) items over 0..C, C in {4,6,7}, and every multiset of <= 6 (7) items for the decreasing variants (completion in grid_exhaustive_complete_shards); then first-fit, best-fit, FFD, BFD in every arrival order (random, ascending, descending, big-small alternation) on random, hardpack, repeat, threshold, zeros, equal classes "
        "(ints and dyadic fractions), 1% many-bins cases (300-1500 items, several hundred bins), the FFD non-monotonicity examples, patterned arrival orders (a short pattern of halves/thirds/tiny items repeated up to 40 times; OPT bounded from above by reference FFD/BFD packings, which makes the bound checks sound without OPT), and planted perfect packings up to 200 items; non-trivial = >= 3 bins; distinct on (algorithm, binsize, value sequence)")
ASSUMPTIONS = ["OPT from O2 for n <= 12, from the planted construction otherwise; instances with neither get the any-fit invariant and the bounds against a certified upper bound on OPT (reference FFD/BFD packings)"]
FLOORS = {"quick": {"distinct_nontrivial": 20000, "with_opt": 5000}, "thorough": {"distinct_nontrivial": 100000, "with_opt": 25000}}
ALGS = ("ff", "bf", "ffd", "bfd")
NONMONO = [(60, [44, 24, 24, 22, 21, 17, 8, 8, 6, 6]), (61, [44, 24, 24, 22, 21, 17, 8, 8, 6, 6]),
           (75, [51, 27.5, 27.5, 27.5, 27.5, 25, 12, 12, 10, 10, 10, 10, 10, 10, 10, 10, 10]), (76, [51, 27.5, 27.5, 27.5, 27.5, 25, 12, 12, 10, 10, 10, 10, 10, 10, 10, 10, 10])]


def plan(tier, seed):
    n = 16 if tier == "quick" else 64
    b = 25 if tier == "quick" else 80
    return [{"seed": seed * 1000 + i, "shard": i, "nshards": n, "budget_s": b, "max_cases": 10 ** 7, "watchdog_s": b * 5 + 120} for i in range(n)]


def judge(case, ctx):
    alg, Cs = case["alg"], F(case["C"])
    ctx.evaluated()
    r, names, vmap = C.run_pack_case(case, "Partition", ctx=ctx, pres="list")
    if r.timeout:
        ctx.inconc("timeout", case)
        return
    if not r.ok:
        ctx.violation("exception", alg, case, C.exc_witness(r, case) if r.exc is not None else {"none": True})
        return
    bins = [[F(x) for x in b] for b in r.value]
    w = {"binsize": case["C"], "bins": [[float(x) for x in b] for b in bins][:14]}
    if sorted(x for b in bins for x in b) != sorted(map(F, case["values"])) or any(not b for b in bins):
        ctx.violation("not_a_packing_of_the_input", alg, case, w)
        return
    tot = [sum(b) for b in bins]
    for j in range(1, len(bins)):
        first = bins[j][0]
        for i in range(j):
            if tot[i] + first <= Cs:
                ctx.violation("any_fit_invariant_broken", alg, case, dict(w, earlier_bin=i, later_bin=j, first_item=float(first)))
                return
    opt = case.get("planted_opt")
    pos = [F(v) for v in case["values"] if v > 0]
    if opt is None and len(pos) <= 12:
        try:
            opt = O.min_bins(pos, Cs) if pos else 1
        except O.OracleBudget:
            opt = None
    n = len(bins)
    if opt is None and pos and len(pos) <= 400:
        # certificate: the better of two reference packings (first-fit-decreasing, best-fit-decreasing transcribed in rv/refmodels.py) is an UPPER bound U on OPT;
        # more than floor(1.7*U) bins is then certainly more than floor(1.7*OPT) (same for the 11/9 bounds) - sound without knowing OPT
        ub = min(len(R.first_fit_decreasing(pos, Cs)), len(R.best_fit_decreasing(pos, Cs)))
        ctx.counters["with_opt_upper_bound"] += 1
        w["opt_upper_bound"] = ub
        if alg in ("ff", "bf") and n > (17 * ub) // 10:
            ctx.violation("more_than_1.7_OPT_bins", alg, case, dict(w, bins_used=n))
            return
        if alg == "ffd" and F(n) > F(11, 9) * ub + F(6, 9):
            ctx.violation("ffd_bound_exceeded", alg, case, dict(w, bins_used=n))
            return
        if alg == "bfd" and F(n) > F(11, 9) * ub + 4:
            ctx.violation("bfd_bound_exceeded", alg, case, dict(w, bins_used=n))
            return
    if opt is not None:
        ctx.counters["with_opt"] += 1
        w["opt"] = opt
        if alg in ("ff", "bf") and n > (17 * opt) // 10:
            ctx.violation("more_than_1.7_OPT_bins", alg, case, dict(w, bins_used=n))
            return
        if alg == "ffd" and F(n) > F(11, 9) * opt + F(6, 9):
            ctx.violation("ffd_bound_exceeded", alg, case, dict(w, bins_used=n))
            return
        if alg == "bfd" and F(n) > F(11, 9) * opt + 4:
            ctx.violation("bfd_bound_exceeded", alg, case, dict(w, bins_used=n))
            return
        if n < opt and pos:
            ctx.violation("fewer_bins_than_optimum", alg, case, dict(w, bins_used=n))
            return
    ctx.held(key=(alg, float(Cs), tuple(map(float, case["values"]))), nontrivial=n >= 3, cls=f"{alg}/{case['cls']}/{case.get('order')}",
             sample={"case": dict(case, values=case["values"][:30]), "bins_used": n, "opt": opt})
    ctx.counters["alg:" + alg] += 1


def draw(rng, alg):
    x = rng.random()
    if x < 0.03:
        Cs, v = rng.choice(NONMONO)
        return {"kind": "pack", "alg": alg, "C": Cs, "values": gen.arrange(rng, v, rng.choice(gen.ORDERS)), "cls": "ffd_nonmonotone", "order": "any", "pres": "list", "pres_seed": 0}
    if x < 0.3:
        m = rng.choice([3, 5, 10, 20, 40])
        Cs, v, m = gen.planted_packing(rng, m, rng.choice([10, 30, 100, 1000]))
        order = rng.choice(gen.ORDERS)
        return {"kind": "pack", "alg": alg, "C": Cs, "values": gen.arrange(rng, v, order), "cls": "planted", "order": order, "planted_opt": m, "pres": "list", "pres_seed": 0}
    if x < 0.42:
        # patterned arrival orders: a short pattern of sizes (halves, thirds, quarters, tiny items, near-misses) repeated many times - the orders on which a fit rule that
        # scans in the wrong direction wastes the most bins; OPT is bounded from above by reference packings (see judge)
        Cs = rng.choice([12, 20, 30, 60, 100, 120, 1000, rng.randint(10, 400)])
        palette = [Cs // 2, Cs // 2, Cs // 2 + 1, Cs // 2 - 1, Cs // 3, Cs // 3 + 1, Cs // 4, max(1, Cs // 20), 1, 1, 2, rng.randint(1, max(1, Cs // 12)), rng.randint(1, Cs), Cs - 1, Cs - Cs // 3]
        pat = [rng.choice(palette) for _ in range(rng.choice([2, 2, 2, 3, 4]))]
        reps = rng.choice([4, 8, 12, 16, 24, 40])
        v = pat * reps
        if rng.random() < 0.3:
            v = v + [rng.choice(palette) for _ in range(rng.randint(1, 6))]
        return {"kind": "pack", "alg": alg, "C": Cs, "values": v, "cls": "patterned_order", "order": "pattern", "pres": "list", "pres_seed": 0}
    if rng.random() < 0.01:
        Cs, v = gen.pack_instance(rng, "manybins")
        return {"kind": "pack", "alg": alg, "C": Cs, "values": v, "cls": "manybins", "order": "random", "pres": "list", "pres_seed": 0}
    case = C.draw_pack_case(rng, alg=alg, pres="list", nmax=rng.choice([8, 12, 12, 30, 100]))
    return case


def exhaustive_cases(spec):
    import itertools
    big = spec.get("tier") == "thorough"
    for Cs in (4, 6, 7):
        for n in range(1, 6 if big else 5):
            for seq in itertools.product(range(0, Cs + 1), repeat=n):
                for alg in ("ff", "bf"):
                    yield {"kind": "pack", "alg": alg, "C": Cs, "values": list(seq), "cls": "grid_exhaustive", "order": "all", "pres": "list", "pres_seed": 0}
        for ms in C.multisets(range(0, Cs + 1), 7 if big else 6):
            for alg in ("ffd", "bfd"):
                yield {"kind": "pack", "alg": alg, "C": Cs, "values": list(ms), "cls": "grid_exhaustive", "order": "sorted", "pres": "list", "pres_seed": 0}


def run_shard(spec, rng, ctx):
    end = C.budget(spec)
    # bounded-exhaustive small scope: every arrival SEQUENCE of <= 4 (thorough 5) items over 0..C for C in {4,6,7} (online fits), every multiset of <= 6 (7) items (decreasing fits)
    grid_end = C.now() + 0.4 * float(spec.get("budget_s", 60))
    complete = True
    for case in C.sharded(exhaustive_cases(spec), spec):
        if C.now() > grid_end:
            complete = False
            break
        judge(case, ctx)
        ctx.counters["grid_exhaustive_cases"] += 1
    ctx.counters["grid_exhaustive_complete_shards"] += int(complete)
    i = 0
    while i < spec["max_cases"] and C.now() < end:
        judge(draw(rng, ALGS[i % 4]), ctx)
        i += 1


def replay(case, ctx):
    judge(case, ctx)
