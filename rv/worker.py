"""
One shard: import prtpy from the tree under check, run the property's shard function, dump what the monitors saw.
usage: python -B -m rv.worker <Cxx> <spec.json> <out.json>
"""
import faulthandler, importlib, json, os, random, sys, time, traceback, warnings


def main():
    prop, spec_path, out_path = sys.argv[1:4]
    faulthandler.enable()
    with open(spec_path) as f:
        spec = json.load(f)
    wd = float(spec.get("watchdog_s", 600))
    faulthandler.dump_traceback_later(wd * 0.95, exit=False)
    from rv import harness
    t0 = time.time()
    ctx = harness.Ctx(prop, spec)
    status = "ok"
    err = None
    try:
        harness.import_prtpy()
        if spec.get("replay") is None and int(spec.get("shard", 0)) % 4 == 3 or (spec.get("replay") is not None and spec.get("debug_logging")):
            # every fourth shard runs with DEBUG logging switched on for the whole prtpy logger tree (records are discarded by a NullHandler): the properties hold
            # whatever the caller's logging configuration, and code inside `if logger.isEnabledFor(DEBUG)` blocks, or the arguments of debug messages, only runs then
            import logging
            lg = logging.getLogger("prtpy")
            lg.addHandler(logging.NullHandler())
            lg.setLevel(logging.DEBUG)
            lg.propagate = False
            ctx.counters["shards_with_debug_logging"] += 1
            ctx.debug_logging = True
        m = importlib.import_module(f"rv.props.{prop.lower()}")
        rng = random.Random(spec["seed"])
        if spec.get("replay") is not None:
            m.replay(spec["replay"], ctx)
        else:
            m.run_shard(spec, rng, ctx)
    except BaseException as e:  # harness failure => inconclusive, never a verdict
        status = "harness_error"
        err = "".join(traceback.format_exception(type(e), e, e.__traceback__))[-3000:]
    out = ctx.dump()
    out["status"] = status
    out["error"] = err
    out["wall_s"] = time.time() - t0
    with open(out_path, "w") as f:
        json.dump(out, f)


if __name__ == "__main__":
    main()
