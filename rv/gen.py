"""
W* — seeded workload generators (DESIGN.md §4.3). Pure data; nothing here imports prtpy.
Every generator takes a random.Random and returns python ints (or Fractions where stated).
"""
from fractions import Fraction
import itertools

PART_CLASSES = ("small", "zeros", "equal", "ties", "kgtn", "big", "perfect", "nearperfect", "powers", "onehuge", "grid")


def part_values(rng, cls, n, k=2):
    """Value vector of length n for a partitioning workload of class cls."""
    if n <= 0:
        n = 1
    if cls == "small":
        hi = rng.choice([3, 10, 100, 1000])
        return [rng.randint(1, hi) for _ in range(n)]
    if cls == "zeros":
        hi = rng.choice([3, 10, 100])
        v = [rng.randint(0, hi) for _ in range(n)]
        nz = rng.randint(1, max(1, n // 2)) if rng.random() < 0.85 else n
        for i in rng.sample(range(n), min(nz, n)):
            v[i] = 0
        return v
    if cls == "equal":
        a = rng.randint(1, 50)
        if rng.random() < 0.5:
            return [a] * n
        b = rng.randint(1, 50)
        return [rng.choice([a, b]) for _ in range(n)]
    if cls == "ties":
        pool = [rng.randint(1, 12) for _ in range(rng.randint(2, 3))]
        return [rng.choice(pool) for _ in range(n)]
    if cls == "big":
        return [rng.randint(1, 2 ** rng.choice([20, 30, 40])) for _ in range(n)]
    if cls == "bignear":
        # large and nearly equal: relative differences ~1e-9 .. 1e-13 while every sum is still an exact float64 integer
        base = rng.choice([10 ** 9, 10 ** 10, 10 ** 12, 2 ** 40, 10 ** 14])
        n = min(n, 10)
        return [base * rng.choice([1, 1, 1, 2]) + rng.randint(0, 50) for _ in range(n)]
    if cls == "huge":
        # near the float64-exactness limit of the property's scope: total stays below 2^52
        n = min(n, 6)
        return [rng.randint(1, 2 ** rng.choice([44, 47, 49])) for _ in range(n)]
    if cls == "powers":
        if rng.random() < 0.5:
            return [2 ** rng.randint(0, 12) for _ in range(n)]
        fib = [1, 2]
        while len(fib) < 20:
            fib.append(fib[-1] + fib[-2])
        return [rng.choice(fib[:14]) for _ in range(n)]
    if cls == "onehuge":
        v = [rng.randint(1, 30) for _ in range(n)]
        v[rng.randrange(n)] = sum(v) + rng.randint(0, 40)
        return v
    if cls in ("perfect", "nearperfect"):
        v = planted_partition(rng, k, n, T=rng.choice([12, 30, 100, 997]))
        if cls == "nearperfect" and v:
            i = rng.randrange(len(v))
            v[i] = max(0, v[i] + rng.choice([-1, 1]))
        return v
    if cls == "grid":
        return [rng.randint(0, 4) for _ in range(min(n, 6))]
    if cls == "kgtn":
        hi = rng.choice([3, 10, 100])
        return [rng.randint(1, hi) for _ in range(n)]
    raise KeyError(cls)


def split_total(rng, T, parts):
    """Split integer T into `parts` positive integers (parts <= T)."""
    parts = max(1, min(parts, T))
    cuts = sorted(rng.sample(range(1, T), parts - 1)) if parts > 1 else []
    out, prev = [], 0
    for c in cuts + [T]:
        out.append(c - prev)
        prev = c
    return out


def planted_partition(rng, k, n, T):
    """n (approximately) items forming k bins that each sum to exactly T; shuffled."""
    n = max(n, k)
    sizes = [n // k + (1 if i < n % k else 0) for i in range(k)]
    v = []
    for s in sizes:
        v += split_total(rng, T, max(1, s))
    rng.shuffle(v)
    return v


def lpt_tight(k):
    """The classical tight family for LPT: {2k-1,2k-1,...,k+1,k+1,k,k,k}; OPT_max = 3k, LPT = 4k-1."""
    v = []
    for x in range(2 * k - 1, k, -1):
        v += [x, x]
    return v + [k, k, k]


def list_scheduling_killer(k):
    """k(k-1) ones then one k, ascending: unsorted list scheduling reaches 2k-1 against OPT k."""
    return [1] * (k * (k - 1)) + [k]


# ----------------------------------------------------------------------------- packing / covering
def free_binsize(rng, base):
    """
    Half of the time one of the class's customary bin sizes, otherwise an ARBITRARY integer: mostly 1..250, sometimes up to 5000 or up to 10^7. Arithmetic on the bin size
    (reciprocals, divisions by 2 and 3, float conversions) behaves specially for a few percent of the integers only (e.g. 49 * (1/49) != 1 in float64), and a fixed menu of
    round bin sizes never meets them.
    """
    x = rng.random()
    if x < 0.5:
        return rng.choice(base)
    if x < 0.85:
        return rng.randint(1, 250)
    if x < 0.95:
        return rng.randint(251, 5000)
    return rng.randint(5001, 10 ** 7)


def pack_instance(rng, cls, nmax=12):
    """(binsize, values) with 0 <= v <= binsize."""
    if cls == "random":
        C = free_binsize(rng, [1, 5, 10, 17, 60, 100, 1000])
        n = rng.randint(1, nmax)
        return C, [rng.randint(0 if rng.random() < 0.2 else 1, C) for _ in range(n)]
    if cls == "hardpack":
        C = max(8, free_binsize(rng, [24, 30, 60, 100, 120, 1000]))
        n = rng.randint(min(4, nmax), nmax)
        pool = [rng.randint(max(1, C // 8), C // 2) for _ in range(rng.randint(2, 5))]
        v = [rng.choice(pool) if rng.random() < 0.7 else rng.randint(max(1, C // 8), C // 2) for _ in range(n)]
        if rng.random() < 0.5 and n >= 6:
            # plant triplets that fill a bin exactly
            v = []
            while len(v) + 3 <= n:
                a = rng.randint(C // 4, C // 2)
                b = rng.randint(C // 5, (C - a) * 2 // 3)
                c = C - a - b
                if c >= 1:
                    v += [a, b, c]
            v += [rng.randint(max(1, C // 8), C // 2) for _ in range(n - len(v))]
        rng.shuffle(v)
        return C, v
    if cls == "repeat":
        C = rng.randint(12, 30)
        vals = [rng.randint(2, C // 2 + 2) for _ in range(rng.randint(2, 4))]
        v = []
        for x in vals:
            v += [min(x, C)] * rng.randint(1, 5)
        v = v[:nmax]
        rng.shuffle(v)
        return C, v
    if cls == "manybins":
        # hundreds of bins in use (counts beyond typical internal constants such as 32, 64, 256): 300-1500 items of moderate size
        C = rng.choice([10, 30, 100])
        n = rng.choice([300, 600, 600, 1000, 1500])
        return C, [rng.randint(1, C) for _ in range(n)]
    if cls == "repeat_large":
        # 12-16 items over 2-4 distinct values: bin-completion's branch bookkeeping (several queued branches, completed and pruned ones) is exercised here
        C = rng.randint(8, 40)
        vals = [rng.randint(1, C) for _ in range(rng.randint(2, 4))]
        return C, [rng.choice(vals) for _ in range(rng.randint(12, 16))]
    if cls == "threshold":
        C = 6 * rng.choice([1, 2, 5, 10, 100]) if rng.random() < 0.6 else rng.randint(2, 400)      # thresholds C/2, C/3 are not integers for most free bin sizes: floor/ceil matter
        pts = [C // 2, C // 3, C // 2 + 1, max(1, C // 2 - 1), C // 3 + 1, max(1, C // 3 - 1), C, 1, C // 6 or 1, 2 * C // 3]
        n = rng.randint(2, nmax)
        return C, [rng.choice(pts) for _ in range(n)]
    if cls == "zeros":
        C = rng.choice([5, 10, 100])
        n = rng.randint(1, nmax)
        return C, [rng.choice([0, 0, rng.randint(0, C)]) for _ in range(n)]
    if cls == "equal":
        C = rng.choice([10, 12, 100])
        a = rng.randint(1, C)
        return C, [a] * rng.randint(1, nmax)
    if cls == "planted":
        return planted_packing(rng, m=rng.randint(1, 4), C=max(2, free_binsize(rng, [10, 30, 100])), nmax=nmax)[:2]
    if cls == "widerange":
        # huge bin size with items spanning many orders of magnitude: nearly-full items, tiny items, exact fills (relative tolerances / float shortcuts show here only)
        C = rng.choice([10 ** 9, 10 ** 9 + 7, 2 ** 31, 2 ** 40, 2 ** 50, 10 ** 12])
        n = rng.randint(2, nmax)
        v = []
        for _ in range(n):
            x = rng.random()
            if x < 0.35:
                v.append(C - rng.randint(0, 1000))
            elif x < 0.7:
                v.append(rng.randint(0, 1000))
            elif x < 0.85:
                v.append(rng.randint(1, C))
            else:
                v.append(C // 2 + rng.randint(-500, 500))
        return C, [min(max(0, x), C) for x in v]
    raise KeyError(cls)


def planted_packing(rng, m, C, nmax=None, max_per_bin=5):
    """m exactly-full bins => OPT = m (volume bound). Returns (C, values, m)."""
    v = []
    for _ in range(m):
        v += split_total(rng, C, rng.randint(1, max_per_bin))
    if nmax is not None and len(v) > nmax:
        return planted_packing(rng, max(1, m - 1), C, nmax, max_per_bin)
    rng.shuffle(v)
    return C, v, m


def dyadic(rng, C_int, values, shift=None):
    """Scale an integer instance to dyadic fractions (exact in float64)."""
    d = 2 ** (shift if shift is not None else rng.randint(1, 6))
    return Fraction(C_int, d), [Fraction(v, d) for v in values]


ORDERS = ("random", "ascending", "descending", "bigsmall")


def arrange(rng, values, order):
    v = list(values)
    if order == "random":
        rng.shuffle(v)
    elif order == "ascending":
        v.sort()
    elif order == "descending":
        v.sort(reverse=True)
    elif order == "bigsmall":
        s = sorted(v)
        v = []
        while s:
            v.append(s.pop())
            if s:
                v.append(s.pop(0))
    return v


def cover_instance(rng, cls, nmax=12):
    """(binsize, positive values); values may exceed binsize."""
    if cls == "random":
        C = free_binsize(rng, [1, 5, 10, 17, 60, 100, 1000])
        n = rng.randint(1, nmax)
        return C, [rng.randint(1, max(1, int(C * rng.choice([0.3, 0.6, 1.0, 1.5])))) for _ in range(n)]
    if cls == "threshold":
        C = 6 * rng.choice([1, 2, 5, 10, 100]) if rng.random() < 0.6 else rng.randint(2, 400)
        pts = [C // 2, C // 3, C // 2 + 1, max(1, C // 2 - 1), C // 3 + 1, max(1, C // 3 - 1), C, 1, max(1, C // 6), 2 * C // 3, C + 1]
        n = rng.randint(2, nmax)
        return C, [rng.choice(pts) for _ in range(n)]
    if cls == "allbig":
        # every item alone covers a bin (all values >= the bin size), or a single item
        C = free_binsize(rng, [1, 7, 10, 100])
        n = rng.choice([1, 1, 2, 3, rng.randint(1, nmax)])
        return C, [rng.randint(C, 3 * C) for _ in range(n)]
    if cls == "toosmall":
        C = rng.choice([10, 100, 1000])
        n = rng.randint(1, min(nmax, 6))
        v = split_total(rng, C - 1, n) if C - 1 >= n else [1]
        return C, v
    if cls == "equal":
        C = rng.choice([10, 12, 100])
        return C, [rng.randint(1, C)] * rng.randint(1, nmax)
    if cls == "planted":
        C, v, m = planted_packing(rng, m=rng.randint(1, 4), C=max(2, free_binsize(rng, [10, 30, 100])), nmax=nmax, max_per_bin=4)
        return C, v
    if cls == "widerange":
        C = rng.choice([6 * 10 ** 9, 3 * 2 ** 40, 10 ** 12, 2 ** 45, 6 * 10 ** 14])
        n = rng.randint(2, nmax)
        pts = [C // 2, C // 2 + 1, C // 2 - 1, C // 3, C // 3 + 1, C // 3 - 1, C, C - 1, 1, 2, 1000, C // 6, 2 * C // 3, C + 1]
        return C, [max(1, rng.choice(pts) if rng.random() < 0.8 else rng.randint(1, C)) for _ in range(n)]
    if cls == "worst":
        k = rng.randint(1, 3)
        fam = rng.choice(["nfd", "twothirds", "threequarters"])
        return 1000, cover_worst_family(fam, k)
    raise KeyError(cls)


def cover_worst_family(fam, k):
    """Worst-case families quoted in the docstrings of greedy_covering.py / cflz_covering.py (binsize 1000 scale)."""
    if fam == "nfd":
        # decreasing: [1000-6k, 499 x 6k... ] pattern of the docstring: 994,499*6,1*6  (k=1); 988,499*12,1*12 (k=2)
        return [1000 - 6 * k] + [499] * (6 * k) + [1] * (6 * k)
    if fam == "twothirds":
        return [1000 - 6 * k] + [499] * (6 * k) + [1] * (6 * k)
    if fam == "threequarters":
        # docstring: 2 x 594, 12k x 1 ..., 399 x 12
        return [594] * (2 * k) + [1] * (12 * k) + [399] * (12 * k)
    raise KeyError(fam)


def multisets(alphabet, maxlen):
    for n in range(1, maxlen + 1):
        yield from itertools.combinations_with_replacement(alphabet, n)
