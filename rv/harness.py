"""
In-worker harness: case context (three-valued verdicts, counters, distinct-case sets, samples),
per-case deadline, M1 boundary recorder around prtpy.partition / prtpy.pack, algorithm registry.
"""
import copy, hashlib, importlib, os, signal, sys, traceback, warnings, json, math
from collections import Counter
from fractions import Fraction
import numpy as np

REPO = os.environ.get("VERIF_REPO", "/repo")


def import_prtpy():
    """Import prtpy from the tree under check and assert that it is the one we got."""
    if sys.path[0] != REPO:
        sys.path.insert(0, REPO)
    import prtpy
    here = os.path.realpath(os.path.dirname(prtpy.__file__))
    want = os.path.realpath(os.path.join(REPO, "prtpy"))
    if here != want:
        raise RuntimeError(f"prtpy imported from {here}, expected {want}")
    return prtpy


def mod(name):
    """Import a prtpy sub-module by dotted name (prtpy.partitioning is shadowed by a class)."""
    return importlib.import_module(name)


# ------------------------------------------------------------------ deadlines
class CaseTimeout(Exception):
    pass


def _on_alarm(signum, frame):
    raise CaseTimeout()


class deadline:
    """
    with deadline(seconds): ... raises CaseTimeout inside the block (watchdog; a timeout is inconclusive, never a verdict).
    The limit is `seconds` of CPU time of this process (ITIMER_PROF), so that a loaded machine does not turn slow-but-fine cases into time-outs,
    with a wall-clock fallback at 4x for code that waits instead of computing.
    """
    def __init__(self, seconds):
        self.seconds = seconds

    def __enter__(self):
        self.old = signal.signal(signal.SIGALRM, _on_alarm)
        self.oldp = signal.signal(signal.SIGPROF, _on_alarm)
        signal.setitimer(signal.ITIMER_REAL, self.seconds * 4)
        signal.setitimer(signal.ITIMER_PROF, self.seconds)

    def __exit__(self, *exc):
        signal.setitimer(signal.ITIMER_PROF, 0)
        signal.setitimer(signal.ITIMER_REAL, 0)
        signal.signal(signal.SIGPROF, self.oldp)
        signal.signal(signal.SIGALRM, self.old)
        return False


# ------------------------------------------------------------------ JSON-able conversion
def plain(x):
    """Deep-convert numpy scalars/arrays, tuples, Fractions ... into JSON-able python values."""
    if isinstance(x, (np.integer,)):
        return int(x)
    if isinstance(x, (np.floating,)):
        f = float(x)
        return int(f) if f.is_integer() and abs(f) < 2 ** 53 else f
    if isinstance(x, float):
        if math.isinf(x) or math.isnan(x):
            return repr(x)
        return int(x) if x.is_integer() and abs(x) < 2 ** 53 else x
    if isinstance(x, Fraction):
        return int(x) if x.denominator == 1 else f"{x.numerator}/{x.denominator}"
    if isinstance(x, np.ndarray):
        return [plain(y) for y in x.tolist()]
    if isinstance(x, (list, tuple, set, frozenset)):
        return [plain(y) for y in x]
    if isinstance(x, dict):
        return {str(k): plain(v) for k, v in x.items()}
    if isinstance(x, (int, str, bool)) or x is None:
        return x
    return repr(x)


def h64(key):
    return int.from_bytes(hashlib.blake2b(repr(key).encode(), digest_size=8).digest(), "big")


# ------------------------------------------------------------------ context
class Ctx:
    """Collects what the monitors observed in one shard."""
    MAX_SAMPLES_PER_CLASS = 2
    MAX_VIOL_PER_CLASS = 3
    MAX_DISTINCT = 60000

    def __init__(self, prop, spec):
        self.prop = prop
        self.spec = spec
        self.counters = Counter()
        self.distinct = set()           # hashes of distinct non-trivial canonical cases
        self.samples = {}               # class -> list of samples
        self.violations = []            # dicts {kind, alg, case, witness}
        self.viol_classes = Counter()
        self.inconclusive = Counter()
        self.inconclusive_samples = []
        self.reach = Counter()          # probe / contract counters (evidence)
        self.warnings_seen = Counter()
        from rv import kf
        self._kf = kf
        self._findings = kf.open_findings(prop)

    # ---- verdicts
    def evaluated(self, n=1):
        self.counters["evaluations"] += n

    def held(self, key=None, nontrivial=False, cls="default", sample=None):
        self.counters["held"] += 1
        self.counters["cls:" + cls] += 1
        if nontrivial and key is not None:
            # distinct non-trivial cases are counted with a set of 64-bit digests, capped per shard (conservative beyond the cap)
            if len(self.distinct) < self.MAX_DISTINCT:
                self.distinct.add(h64(key))
            else:
                self.counters["nontrivial_beyond_distinct_cap"] += 1
        if sample is not None:
            lst = self.samples.setdefault(cls, [])
            if len(lst) < self.MAX_SAMPLES_PER_CLASS:
                lst.append(plain(sample))

    def violation(self, kind, alg, case, witness):
        self.counters["violated"] += 1
        rec = {"property": self.prop, "kind": kind, "alg": alg, "case": plain(case), "witness": plain(witness)}
        rec["hashseed"] = int(os.environ.get("PYTHONHASHSEED", "0") or 0)
        if OBJ_STATE["last_fresh"]:
            rec["objective_not_the_singleton"] = True         # informational: derived from the case itself, so a replay makes the same choice
        if getattr(self, "debug_logging", False):
            rec["debug_logging"] = True       # the shard ran with DEBUG logging on (rv/worker.py); the replay switches it on again
        # every violation is classified here, so that capping the recorded ones per class can never hide a new one
        rec["known_finding"] = self._kf.classify(self.prop, rec, self._findings)
        vc = (alg, kind, rec["known_finding"] or "")
        self.viol_classes[vc] += 1
        if self.viol_classes[vc] <= self.MAX_VIOL_PER_CLASS:
            self.violations.append(rec)

    def inconc(self, reason, case=None):
        self.inconclusive[reason] += 1
        if case is not None and len(self.inconclusive_samples) < 5:
            self.inconclusive_samples.append({"reason": reason, "case": plain(case)})

    def merge(self, d):
        """Fold the dump() of a child context (a history played in a forked process) into this one."""
        self.counters.update(d.get("counters", {}))
        for h in d.get("distinct", []):
            if len(self.distinct) < self.MAX_DISTINCT:
                self.distinct.add(h)
        for cls, lst in d.get("samples", {}).items():
            cur = self.samples.setdefault(cls, [])
            for s_ in lst:
                if len(cur) < self.MAX_SAMPLES_PER_CLASS:
                    cur.append(s_)
        for key, n in d.get("viol_classes", {}).items():
            a, k, f = key.split("|")
            self.viol_classes[(a, k, f)] += n
        for v in d.get("violations", []):
            if sum(1 for x in self.violations if (x["alg"], x["kind"], x.get("known_finding")) == (v["alg"], v["kind"], v.get("known_finding"))) < self.MAX_VIOL_PER_CLASS:
                self.violations.append(v)
        self.inconclusive.update(d.get("inconclusive", {}))
        self.inconclusive_samples.extend(d.get("inconclusive_samples", [])[: max(0, 5 - len(self.inconclusive_samples))])
        self.reach.update(d.get("reach", {}))
        self.warnings_seen.update(d.get("warnings_seen", {}))

    def dump(self):
        return {
            "spec": self.spec,
            "counters": dict(self.counters),
            "distinct": sorted(self.distinct),
            "samples": self.samples,
            "violations": self.violations,
            "viol_classes": {f"{a}|{k}|{f}": n for (a, k, f), n in self.viol_classes.items()},
            "inconclusive": dict(self.inconclusive),
            "inconclusive_samples": self.inconclusive_samples,
            "reach": dict(self.reach),
            "warnings_seen": dict(self.warnings_seen),
        }


# ------------------------------------------------------------------ M1 boundary recorder
class Ret:
    """Return event of one monitored call."""
    __slots__ = ("ok", "value", "exc", "tb", "raw_none", "args_changed", "warnings", "timeout", "tb_funcs")

    def __init__(self):
        self.ok = False; self.value = None; self.exc = None; self.tb = None
        self.raw_none = False; self.args_changed = None; self.warnings = (); self.timeout = False
        self.tb_funcs = ()


def snapshot_arg(items):
    """Byte-exact snapshot of the caller's collection (values, order, container type)."""
    if isinstance(items, np.ndarray):
        return ("nd", items.dtype.str, items.shape, items.tobytes())
    if isinstance(items, dict):
        return ("dict", tuple(items.keys()), tuple(map(repr, items.values())))
    if isinstance(items, (list, tuple)):
        return (type(items).__name__, tuple(map(repr, items)))
    return ("other", repr(items))


def monitored_call(adaptor, algorithm, size, items, valueof=None, outputtype=None, timeout=20.0, ctx=None, **kw):
    """
    Call prtpy.partition / prtpy.pack through the real adaptor, recording the call event (argument snapshot)
    and the return event (deep-copied result or exception, raw `None` from the algorithm, warnings).
    """
    r = Ret()
    before = snapshot_arg(items)
    raw = {}

    def wrapped(binner, sz, names, **k2):
        out = algorithm(binner, sz, names, **k2)
        raw["none"] = out is None
        return out
    wrapped.__name__ = getattr(algorithm, "__name__", "alg")
    args = dict(algorithm=wrapped, items=items)
    if valueof is not None:
        args["valueof"] = valueof
    if outputtype is not None:
        args["outputtype"] = outputtype
    try:
        with warnings.catch_warnings(record=True) as wlist:
            warnings.simplefilter("always")
            with deadline(timeout):
                if adaptor.__name__ == "partition":
                    v = adaptor(numbins=size, **args, **kw)
                else:
                    v = adaptor(binsize=size, **args, **kw)
        r.ok = True
        r.value = copy.deepcopy(v)
    except CaseTimeout:
        r.timeout = True
    except BaseException as e:
        if isinstance(e, (KeyboardInterrupt, SystemExit)):
            raise
        r.exc = e
        tb = traceback.extract_tb(e.__traceback__)
        r.tb_funcs = tuple(f.name for f in tb)
        r.tb = "".join(traceback.format_exception_only(type(e), e)).strip()[:300] + " @ " + \
               " > ".join(f"{os.path.basename(f.filename)}:{f.lineno}:{f.name}" for f in tb[-4:])
    r.raw_none = bool(raw.get("none"))
    r.args_changed = snapshot_arg(items) != before
    try:
        r.warnings = tuple(sorted({f"{w.category.__name__}:{str(w.message)[:60]}" for w in wlist}))
    except Exception:
        r.warnings = ()
    if ctx is not None:
        ctx.counters["monitored_calls"] += 1
        for w in r.warnings:
            ctx.warnings_seen[w] += 1
    return r


# ------------------------------------------------------------------ presentations (W-present)
def present(values, how, rng=None):
    """
    Present one value vector in a given way. Returns (items, valueof, names, value_map) where names is the list of
    item names in presentation order and value_map maps a name to its exact value.
    how: list | array | array_u | array_f | dict_str | dict_int_disjoint | dict_int_overlap | dict_enum | dict_val_shift | dict_sub | names_str | names_int
    """
    n = len(values)
    if how == "list":
        return list(values), None, list(values), None
    if how == "array":
        return np.array(values, dtype=np.int64), None, list(values), None
    if how == "array_u":
        # unsigned integer dtype: a natural container for non-negative integers (file sizes, counts); negation and subtraction wrap around on such scalars
        return np.array(values, dtype=np.uint64 if (rng is not None and rng.random() < 0.5) else np.uint32), None, list(values), None
    if how == "array_f":
        return np.array(values, dtype=np.float64), None, list(values), None
    if how in ("dict_str", "names_str", "dict_sub"):
        labels = [f"i{j:03d}" for j in range(n)]
        if rng is not None:
            rng.shuffle(labels)
    elif how in ("dict_int_disjoint", "names_int"):
        base = (max(values) if values else 0) + 1000
        labels = [base + j for j in range(n)]
        if rng is not None:
            rng.shuffle(labels)
    elif how == "dict_enum":
        # the most common way to name items: dict(enumerate(values)) - keys 0..n-1 in order (key 0 is falsy, keys coincide with positions and often with values)
        labels = list(range(n))
    elif how == "dict_val_shift":
        # adversarial integer names: each item is named after ANOTHER item's value (the next smaller distinct value; the smallest gets max+1); repeated
        # values are told apart by adding multiples of 1000003. Code that confuses an item with its value sees plausible-looking numbers here.
        distinct = sorted(set(values))
        nxt = {v: (distinct[i - 1] if i > 0 else (distinct[-1] + 1 if distinct else 1)) for i, v in enumerate(distinct)}
        seen_names, labels = set(), []
        for v in values:
            nm = nxt[v]
            while nm in seen_names:
                nm += 1000003
            seen_names.add(nm)
            labels.append(nm)
    elif how == "dict_int_overlap":
        # integer names drawn from the value range, all distinct, unrelated to the item's own value
        top = max(list(values) + [n]) + 1
        import random as _r
        labels = (rng or _r.Random(0)).sample(range(0, int(top) + n), n)
    else:
        raise KeyError(how)
    vmap = dict(zip(labels, values))
    if how == "dict_sub":
        # a dict SUBCLASS (OrderedDict, defaultdict, Counter): still "a dict from names to values"; code that dispatches on type(items) instead of isinstance misses it
        import collections
        kind = (rng.randrange(3) if rng is not None else 0)
        d = collections.OrderedDict(vmap) if kind == 0 else (collections.defaultdict(int, vmap) if kind == 1 else collections.Counter(vmap))
        return d, None, labels, vmap
    if how.startswith("dict"):
        return dict(vmap), None, labels, vmap
    return list(labels), vmap.__getitem__, labels, vmap


def value_of(name, vmap):
    """Exact value of an item as a plain Python number (numpy scalars are converted: oracle arithmetic must never inherit a fixed-width dtype)."""
    v = name if vmap is None else vmap[name]
    if isinstance(v, np.integer):
        return int(v)
    if isinstance(v, np.floating):
        return float(v)
    return v


def exact(x):
    """float64 sum -> exact int when integral (sums below 2^53 are exact)."""
    f = float(x)
    if f.is_integer():
        return int(f)
    return Fraction(f)


# ------------------------------------------------------------------ algorithm registry
class Algos:
    """Lazy registry bound to the prtpy of the tree under check."""
    def __init__(self):
        self.prtpy = import_prtpy()
        p = self.prtpy
        self.out, self.obj = p.out, p.obj
        prt, pk, cv = p.partitioning, p.packing, p.covering
        self.partitioners = {
            "greedy": prt.greedy, "roundrobin": prt.roundrobin, "multifit": prt.multifit, "kk": prt.kk,
            "cg": prt.complete_greedy, "ckk": prt.ckk, "snp": prt.snp, "rnp": prt.rnp,
            "dp": prt.dp, "ilp": prt.ilp, "cbldm": prt.cbldm,
        }
        bf = mod("prtpy.packing.best_fit")
        self.packers = {
            "ff": pk.first_fit, "ffd": pk.first_fit_decreasing, "bf": bf.online, "bfd": bf.decreasing,
            "bc": pk.bin_completion,
        }
        self.coverers = {"decreasing": cv.decreasing, "twothirds": cv.twothirds, "threequarters": cv.threequarters}
        self.outputtypes = {
            "Sums": p.out.Sums, "LargestSum": p.out.LargestSum, "SmallestSum": p.out.SmallestSum,
            "ExtremeSums": p.out.ExtremeSums, "SortedSums": p.out.SortedSums, "Difference": p.out.Difference,
            "BinCount": p.out.BinCount, "Partition": p.out.Partition,
            "PartitionAndSumsTuple": p.out.PartitionAndSumsTuple, "PartitionAndSums": p.out.PartitionAndSums,
        }

    def objective(self, name, kparam=None, weights=None, case=None):
        o = self.obj
        if name in ("maxmin", "minmax", "diff"):
            # the library offers these three as module-level instances; for a third of the CASES the call gets an EQUAL BUT NOT IDENTICAL instance instead (a deep copy - what
            # a pickle round trip, a multiprocessing worker or `obj.MinimizeTheDifference()` gives the user): code that recognises objectives by identity must still be right
            # for them. The choice is a function of the case (its digest), so that every call made for one case - all output types, repetitions, fresh-state references,
            # replays - gets the same kind of object: they are "the same call".
            single = {"maxmin": o.MaximizeSmallestSum, "minmax": o.MinimizeLargestSum, "diff": o.MinimizeDifference}[name]
            fresh = case is not None and h64(json.dumps(["objective-kind", plain(case.get("values")), case.get("k"), case.get("alg"), plain(case.get("objective")), case.get("cg_mask")], default=str)) % 3 == 0
            OBJ_STATE["last_fresh"] = bool(fresh)
            return copy.deepcopy(single) if fresh else single
        if name == "ksmall": return o.MaximizeKSmallestSums(kparam)
        if name == "klarge": return o.MinimizeKLargestSums(kparam)
        if name == "wmaxmin": return o.MaximizeSmallestWeightedSum(weights)
        raise KeyError(name)


OBJ_STATE = {"last_fresh": False}


CG_SWITCHES = ("use_lower_bound", "use_fast_lower_bound", "use_heuristic_3", "use_set_of_seen_states")


def cg_config(mask):
    return {CG_SWITCHES[i]: bool(mask >> i & 1) for i in range(4)}


# Cost envelope (DESIGN §1): largest n that keeps one call well under the per-case deadline.
def max_n(alg, k, big=False):
    if alg in ("greedy", "roundrobin", "multifit", "kk"):
        return 300
    if alg == "cg":
        return 9 if big else 10
    if alg == "cbldm":
        return 12
    if alg == "dp":
        return 8 if k <= 3 else 6
    if alg == "ilp":
        return 8 if k <= 3 else 7
    if alg == "ckk":
        return {1: 10, 2: 12, 3: 10, 4: 8, 5: 7, 6: 6, 7: 6}.get(k, 3)
    if alg in ("snp", "rnp"):
        return {1: 10, 2: 12, 3: 10, 4: 9, 5: 8, 6: 7, 7: 6, 8: 6, 9: 6}.get(k, 5)
    return 8
