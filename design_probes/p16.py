import warnings, random, sys, itertools, time
warnings.simplefilter("ignore")
import prtpy
from prtpy import obj, out
from oracle import *
from collections import Counter
prt=prtpy.partitioning
rng=random.Random(int(sys.argv[1]) if len(sys.argv)>1 else 0)
N=int(sys.argv[2]) if len(sys.argv)>2 else 200
objs={'maxmin':obj.MaximizeSmallestSum,'minmax':obj.MinimizeLargestSum,'diff':obj.MinimizeDifference}
res=Counter()
for t in range(N):
    n=rng.randint(1,9); k=rng.randint(1,5)
    items=[rng.randint(1,rng.choice([3,10,100,1000])) for _ in range(n)]
    if rng.random()<.2: items=[rng.choice([2,3]) for _ in range(n)]
    for on,o in objs.items():
        want=opt(items,k,on)
        for sw in itertools.product([False,True],repeat=4):
            kw=dict(zip(['use_lower_bound','use_fast_lower_bound','use_heuristic_3','use_set_of_seen_states'],sw))
            try:
                s=prtpy.partition(algorithm=prt.complete_greedy,numbins=k,items=items,outputtype=out.Sums,objective=o,**kw)
                got=objval(on,list(s))
                res['n']+=1
                if got!=want: res['bad']+=1; print('BAD',items,k,on,kw,got,want)
            except Exception as e:
                res['exc']+=1
                if res['exc']<5: print('EXC',items,k,on,kw,repr(e)[:60])
    # ksmall/klarge on dp
    if n<=7:
        for on in ['ksmall','klarge']:
            kk=rng.randint(1,k+1)
            o=obj.MaximizeKSmallestSums(kk) if on=='ksmall' else obj.MinimizeKLargestSums(kk)
            s=prtpy.partition(algorithm=prt.dp,numbins=k,items=items,outputtype=out.Sums,objective=o)
            if objval(on,list(s),kk)!=opt(items,k,on,kk): res['dp_bad']+=1; print('DPBAD',items,k,on,kk)
            res['dp_n']+=1
print(res)
