import warnings, random, sys, time, itertools, math
warnings.simplefilter("ignore")
import prtpy
from prtpy import obj, out
from collections import Counter
from oracle import *
from fractions import Fraction as F
prt=prtpy.partitioning
from prtpy.packing import best_fit
rng=random.Random(int(sys.argv[1]) if len(sys.argv)>1 else 0)
N=int(sys.argv[2]) if len(sys.argv)>2 else 300
res=Counter()
def optbins(items, C):
    items=sorted(items,reverse=True); best=[len(items)]
    def rec(i,bins):
        if len(bins)>=best[0]: return
        if i==len(items): best[0]=len(bins); return
        v=items[i]; seen=set()
        for j in range(len(bins)):
            if bins[j]+v<=C and bins[j] not in seen:
                seen.add(bins[j]); bins[j]+=v; rec(i+1,bins); bins[j]-=v
        bins.append(v); rec(i+1,bins); bins.pop()
    rec(0,[]); return best[0]
def optcover(items,C):
    # max number of bins with sum>=C, subset DP over bitmask
    n=len(items)
    from functools import lru_cache
    full=(1<<n)-1
    sums=[0]*(1<<n)
    for m in range(1,1<<n):
        lb=m&-m; sums[m]=sums[m^lb]+items[lb.bit_length()-1]
    @lru_cache(None)
    def f(mask):
        # best cover count using items in mask
        if sums[mask]<C: return 0
        best=0
        # choose subset containing lowest bit or discard lowest bit
        low=mask&-mask
        rest=mask^low
        best=f(rest)  # discard lowest
        sub=rest
        while True:
            s=sub|low
            if sums[s]>=C:
                # minimal check skip
                best=max(best,1+f(mask^s))
            if sub==0: break
            sub=(sub-1)&rest
        return best
    return f(full)
for t in range(N):
    n=rng.randint(1,9); k=rng.randint(2,4)
    items=[rng.randint(0,rng.choice([5,30,300])) for _ in range(n)]
    if rng.random()<.2: items=[rng.choice([3,5,7]) for _ in range(n)]
    omax=opt(items,k,'minmax'); omin=-opt(items,k,'maxmin'); mx=max(items)
    for a,alg in [('greedy',prt.greedy),('kk',prt.kk)]:
        s=prtpy.partition(algorithm=alg,numbins=k,items=items,outputtype=out.Sums)
        if F(int(max(s)))>(F(4,3)-F(1,3*k))*omax: res[a+'_minmax_ratio']+=1; print(a,'ratio',items,k,s,omax)
        if max(s)-min(s)>mx: res[a+'_gap']+=1; print(a,'gap',items,k,s)
        if a=='greedy' and F(int(min(s)))<F(3*k-1,4*k-2)*omin: res['greedy_maxmin']+=1; print('greedy maxmin',items,k,s,omin)
    s,l=prtpy.partition(algorithm=prt.roundrobin,numbins=k,items=items,outputtype=out.PartitionAndSumsTuple)
    if max(s)-min(s)>mx or list(s)!=sorted(s,reverse=True) or max(map(len,l))-min(map(len,l))>1: res['rr']+=1; print('rr',items,k,s,l)
    for it in [1,3,10]:
        s=prtpy.partition(algorithm=prt.multifit,numbins=k,items=items,outputtype=out.Sums,iterations=it)
        if len(s)>k or max(s)>(1.22+2**-it)*omax: res['multifit']+=1; print('multifit',it,items,k,s,omax)
    # packing
    C=rng.choice([10,30,100]); pit=[rng.randint(0,C) for _ in range(n+3)]
    o=optbins(pit,C) if any(pit) else 1
    for a,alg,bound in [('ff',prtpy.packing.first_fit,lambda o:math.floor(1.7*o)),('bf',best_fit.online,lambda o:math.floor(1.7*o)),('ffd',prtpy.packing.ffd,lambda o:F(11,9)*o+F(6,9)),('bfd',best_fit.decreasing,lambda o:F(11,9)*o+4)]:
        l=prtpy.pack(algorithm=alg,binsize=C,items=pit,outputtype=out.Partition)
        if len(l)>bound(o): res[a+'_bound']+=1; print(a,'bound',pit,C,len(l),o)
        for i in range(len(l)):
            for j in range(i+1,len(l)):
                if sum(l[i])+l[j][0]<=C: res[a+'_anyfit']+=1; print(a,'anyfit',pit,C,l)
    # covering
    cit=[rng.randint(1,rng.choice([C//3+1,C,2*C])) for _ in range(n+3)]
    oc=optcover(cit,C)
    for a,alg,bound in [('dec',prtpy.covering.decreasing,lambda o:F(o-1,2)),('23',prtpy.covering.twothirds,lambda o:F(2,3)*(o-1)),('34',prtpy.covering.threequarters,lambda o:F(3,4)*o-4)]:
        s,l=prtpy.pack(algorithm=alg,binsize=C,items=cit,outputtype=out.PartitionAndSumsTuple)
        used=Counter(x for b in l for x in b)
        left=Counter(cit)-used
        if (used-Counter(cit)) or any(sum(b)<C for b in l) or sum(left.elements())>=C or any(sum(b)!=x for b,x in zip(l,s)): res[a+'_cover_invalid']+=1; print(a,'invalid',cit,C,l)
        if len(l)<bound(oc) or len(l)>oc: res[a+'_cover_bound']+=1; print(a,'bound',cit,C,len(l),oc)
    res['n']+=1
print(res)
