import itertools
from functools import lru_cache
def all_sum_vectors(items, k):
    """set of sorted sum-vectors reachable (canonical)"""
    states={tuple([0]*k)}
    for v in items:
        ns=set()
        for s in states:
            seen=set()
            for i in range(k):
                if s[i] in seen: continue
                seen.add(s[i])
                t=list(s); t[i]+=v; t.sort(); ns.add(tuple(t))
        states=ns
    return states
def objval(name, sums, kk=None):
    s=sorted(sums)
    if name=='maxmin': return -s[0]
    if name=='minmax': return s[-1]
    if name=='diff': return s[-1]-s[0]
    if name=='ksmall': return -sum(s[:kk])
    if name=='klarge': return sum(s[-kk:])
def opt(items,k,name,kk=None):
    return min(objval(name,s,kk) for s in all_sum_vectors(items,k))
