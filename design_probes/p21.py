import warnings, random, sys, itertools
warnings.simplefilter("ignore")
import numpy as np
import prtpy
from prtpy import out, obj, BinnerKeepingSums, BinnerKeepingContents
from prtpy.packing import best_fit
from collections import Counter
prt=prtpy.partitioning
rng=random.Random(3); res=Counter()
# C19
packs={'ff':prtpy.packing.first_fit,'ffd':prtpy.packing.ffd,'bf':best_fit.online,'bfd':best_fit.decreasing,'bc':prtpy.packing.bin_completion}
outs=[out.Partition,out.PartitionAndSumsTuple,out.PartitionAndSums,out.Sums,out.SortedSums,out.LargestSum,out.SmallestSum,out.ExtremeSums,out.Difference,out.BinCount]
for t in range(300):
    n=rng.randint(1,8); C=rng.choice([1,10,50]); vals=[rng.randint(0,C) for _ in range(n)]
    for _ in range(rng.randint(1,3)): vals.insert(rng.randint(0,len(vals)), C+rng.choice([1,2,C,1000]))
    names=[f"n{i}" for i in range(len(vals))]; d=dict(zip(names,vals))
    for a,alg in packs.items():
        for form in ['list','dict','names','array']:
            o=rng.choice(outs)
            try:
                if form=='list': r=prtpy.pack(algorithm=alg,binsize=C,items=vals,outputtype=o)
                elif form=='dict': r=prtpy.pack(algorithm=alg,binsize=C,items=d,outputtype=o)
                elif form=='names': r=prtpy.pack(algorithm=alg,binsize=C,items=names,valueof=d.__getitem__,outputtype=o)
                else: r=prtpy.pack(algorithm=alg,binsize=C,items=np.array(vals),outputtype=o)
                res[(a,form,'RETURNED')]+=1; print('RET',a,form,vals,C,o.__name__,r)
            except ValueError: res['ok']+=1
            except Exception as e: res[(a,form,type(e).__name__)]+=1
# cbldm
good=dict(items=[8,7,6,5,4],numbins=2)
for bad in [dict(numbins=1),dict(numbins=3),dict(numbins=0),dict(items=[8,7,-1,5]),dict(items=[-3]),dict(time_limit=0),dict(time_limit=-1.5),dict(partition_difference=0),dict(partition_difference=-2),dict(partition_difference=1.5),dict(partition_difference=2.0)]:
    kw={**good,**bad}
    for o in [out.Partition,out.Sums]:
        try:
            r=prtpy.partition(algorithm=prt.cbldm,outputtype=o,**kw); print('CBLDM RET',bad,r)
        except ValueError: res['cb_ok']+=1
        except Exception as e: print('CBLDM other',bad,repr(e))
try: print('numitems',BinnerKeepingSums().numitems(BinnerKeepingSums().new_bins(2),0))
except Exception as e: print('numitems raises',type(e).__name__)
# C20
def ref(name,s,k=None,w=None):
    s=sorted(float(x) for x in s)
    return {'maxmin':lambda:-s[0],'minmax':lambda:s[-1],'diff':lambda:s[-1]-s[0],'ksmall':lambda:-sum(s[:k]),'klarge':lambda:sum(s[-k:])}[name]()
for t in range(3000):
    n=rng.randint(1,6); s=[rng.randint(0,50) for _ in range(n)]; k=rng.randint(1,n+2)
    for typ in (list,tuple,np.array):
        for name,o in [('maxmin',obj.MaximizeSmallestSum),('minmax',obj.MinimizeLargestSum),('diff',obj.MinimizeDifference),('ksmall',obj.MaximizeKSmallestSums(k)),('klarge',obj.MinimizeKLargestSums(k))]:
            v=o.value_to_minimize(typ(s)); v2=o.value_to_minimize(typ(sorted(s)),are_sums_in_ascending_order=True)
            if v!=ref(name,s,k) or v2!=ref(name,s,k): res['obj_bad']+=1; print('OBJ',name,s,k,v,v2)
    w=[rng.choice([1,2,3,.5,10]) for _ in range(n)]
    v=obj.MaximizeSmallestWeightedSum(w).value_to_minimize(s)
    if v!=-min(a/b for a,b in zip(s,w)): res['wobj_bad']+=1
    try: obj.MaximizeSmallestWeightedSum(w).value_to_minimize(sorted(s),are_sums_in_ascending_order=True); res['w_sorted_accepts']+=1
    except ValueError: pass
# equal weights ilp
for t in range(80):
    n=rng.randint(1,7); k=rng.randint(1,4); vals=[rng.randint(0,200) for _ in range(n)]
    o=rng.choice([obj.MaximizeSmallestSum,obj.MinimizeLargestSum,obj.MinimizeDifference])
    base=prtpy.partition(algorithm=prt.ilp,numbins=k,items=vals,outputtype=out.Sums,objective=o)
    for c in [1,2,3,5,7,10,0.5]:
        try:
            r=prtpy.partition(algorithm=prt.ilp,numbins=k,items=vals,outputtype=out.Sums,objective=o,weights=[c]*k)
            if list(r)!=list(base):
                res['eqw_diff']+=1
                if o.value_to_minimize(r)!=o.value_to_minimize(base): res['eqw_objdiff']+=1; print('EQW',vals,k,c,o,base,r)
        except Exception as e: res['eqw_exc']+=1; print('EQW EXC',vals,k,c,repr(e)[:80])
print(res)
