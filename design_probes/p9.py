import warnings, random, sys, time, itertools, math
warnings.simplefilter("ignore")
import prtpy
from prtpy import obj, out
from collections import Counter
prt=prtpy.partitioning
rng=random.Random(int(sys.argv[1]) if len(sys.argv)>1 else 0)
N=int(sys.argv[2]) if len(sys.argv)>2 else 300
res=Counter()
def best2(items,d):
    n=len(items); tot=sum(items); best=None
    for m in range(1<<n):
        c=bin(m).count('1')
        if abs(c-(n-c))>d: continue
        s=sum(items[i] for i in range(n) if m>>i&1)
        v=abs(tot-2*s)
        if best is None or v<best: best=v
    return best
for t in range(N):
    n=rng.randint(1,11)
    items=[rng.randint(0,rng.choice([3,20,500])) for _ in range(n)]
    d=rng.choice([1,1,2,3,n,10**9])
    kw={} if d==10**9 else {'partition_difference':d}
    try:
        s,l=prtpy.partition(algorithm=prt.cbldm,numbins=2,items=items,outputtype=out.PartitionAndSumsTuple,**kw)
    except Exception as e:
        res['exc']+=1; print('EXC',items,d,repr(e)[:80]); continue
    flat=Counter(x for b in l for x in b)
    want=best2(items,d)
    if flat!=Counter(items) or len(l)!=2: res['invalid']+=1; print('INVALID',items,d,l)
    elif abs(len(l[0])-len(l[1]))>d: res['card']+=1; print('CARD',items,d,l)
    elif abs(s[0]-s[1])!=want: res['subopt']+=1; print('SUBOPT',items,d,l,want)
    else: res['ok']+=1
print(res)
