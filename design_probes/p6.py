import warnings, random, sys, time, itertools
warnings.simplefilter("ignore")
import prtpy
from prtpy import obj, out
prt=prtpy.partitioning
rng=random.Random(2)
from collections import Counter
# copies
for t in range(60):
    n=rng.randint(1,5); k=rng.randint(1,3)
    items=[rng.randint(1,50) for _ in range(n)]
    copies=rng.choice([2, [rng.randint(0,2) for _ in range(n)], 0, 1])
    names=[f"i{j}" for j in range(n)]
    vals=dict(zip(names,items))
    try:
        s,l=prtpy.partition(algorithm=prt.ilp,numbins=k,items=vals,outputtype=out.PartitionAndSumsTuple,objective=obj.MaximizeSmallestSum,copies=copies if not isinstance(copies,list) else copies)
    except Exception as e:
        print('EXC',items,k,copies,repr(e)[:80]); continue
    c=Counter(x for b in l for x in b)
    want={names[j]:(copies[j] if isinstance(copies,list) else copies) for j in range(n)}
    want={a:b for a,b in want.items() if b}
    if dict(c)!=want or list(s)!=sorted(s): print('BAD',items,k,copies,l,list(s))
# additional constraints
for c in [0,10,40,50,100,49]:
  for form in ['eq','le','ge']:
    items=[46, 39, 27, 26, 16, 13, 10]
    f={'eq':lambda sums:[sums[0]==c],'le':lambda sums:[sums[-1]<=c],'ge':lambda sums:[sums[0]>=c]}[form]
    try:
        s=prtpy.partition(algorithm=prt.ilp,numbins=3,items=items,outputtype=out.Sums,objective=obj.MinimizeLargestSum,additional_constraints=f)
        print(form,c,s)
    except Exception as e: print(form,c,'EXC',repr(e)[:90])
