def optbins(items, C):
    # exact min bins via DFS
    items=sorted(items,reverse=True)
    best=[len(items)]
    def rec(i,bins):
        if len(bins)>=best[0]: return
        if i==len(items): best[0]=len(bins); return
        v=items[i]; seen=set()
        for j in range(len(bins)):
            if bins[j]+v<=C and bins[j] not in seen:
                seen.add(bins[j]); bins[j]+=v; rec(i+1,bins); bins[j]-=v
        bins.append(v); rec(i+1,bins); bins.pop()
    rec(0,[]); return best[0]
