"""hostile input classes on the (repaired) tree: big values, zeros, k>n, int64 arrays, dict; validity for all, optimality for exact."""
import warnings, random, sys
warnings.simplefilter("ignore")
import numpy as np, prtpy, signal
class TO(Exception): pass
def _h(*a): raise TO()
signal.signal(signal.SIGALRM,_h)
from prtpy import obj, out
from oracle import *
from collections import Counter
prt=prtpy.partitioning
rng=random.Random(int(sys.argv[1])); N=int(sys.argv[2]); res=Counter()
algs={'greedy':prt.greedy,'rr':prt.roundrobin,'multifit':prt.multifit,'kk':prt.kk,'cg':prt.complete_greedy,'ckk':prt.ckk,'snp':prt.snp,'rnp':prt.rnp,'dp':prt.dp,'cbldm':prt.cbldm}
exact={'cg','ckk','snp','rnp','dp'}
for t in range(N):
    n=rng.randint(1,8); k=rng.randint(1,min(n+3,7)) if rng.random()<.3 else rng.randint(1,5)
    if k>5: n=min(n,5)
    cls=rng.choice(['big','bigclose','zeros','mixed','pow2'])
    if cls=='big': items=[rng.randint(1,2**40) for _ in range(n)]
    elif cls=='bigclose':
        b=rng.randint(2**38,2**40); items=[b+rng.randint(-3,3) for _ in range(n)]
    elif cls=='zeros': items=[rng.choice([0,0,rng.randint(1,50)]) for _ in range(n)]
    elif cls=='mixed': items=[rng.choice([0,1,2**20,2**39+1,rng.randint(1,10**6)]) for _ in range(n)]
    else: items=[2**rng.randint(0,40) for _ in range(n)]
    form=rng.choice(['list','array','dict'])
    names=[f"k{j}" for j in range(n)]; d=dict(zip(names,items))
    arg={'list':items,'array':np.array(items,dtype=np.int64),'dict':d}[form]
    o=None
    for a,alg in algs.items():
        kk_=2 if a=='cbldm' else k
        if a=='rnp' and kk_>=6: continue
        if a=='dp' and (kk_>=4 and n>6 or n>8): continue
        try:
            signal.alarm(20)
            s,l=prtpy.partition(algorithm=alg,numbins=kk_,items=arg,outputtype=out.PartitionAndSumsTuple)
            signal.alarm(0)
        except TO:
            res[(a,cls,'TIMEOUT')]+=1; continue
        except Exception as e:
            signal.alarm(0)
            res[(a,cls,'EXC')]+=1; print('EXC',a,cls,form,items,kk_,repr(e)[:80]); continue
        vals=[[d[x] if form=='dict' else int(x) for x in b] for b in l]
        flat=sorted(x for b in vals for x in b)
        ok = flat==sorted(items) and (len(l)==kk_ or (a=='multifit' and len(l)<=kk_)) and all(int(ss)==sum(b) for ss,b in zip(s,vals))
        if not ok: res[(a,cls,'INVALID')]+=1; print('INVALID',a,cls,form,items,kk_,list(s),l); continue
        if a in exact and kk_<=5 and n<=8:
            if o is None: o=opt(items,kk_,'diff')
            dv=max(map(sum,vals))-min(map(sum,vals)) if len(vals)==kk_ else None
            if dv!=o:
                if a=='rnp' and kk_>=4: res['rnp_known']+=1
                else: res[(a,cls,'SUBOPT')]+=1; print('SUBOPT',a,cls,items,kk_,dv,o)
        res['ok']+=1
print(res)
