import warnings, sys, os, time
warnings.simplefilter("ignore")
import prtpy, mip
from prtpy import obj, out
prt=prtpy.partitioning
# 1. mip preprocess toggle via wrapping Model
print('mip version', mip.__version__)
Orig=mip.Model
made=[]
class M(Orig):
    def __init__(self,*a,**k):
        super().__init__(*a,**k); self.preprocess=0; made.append(self)
import importlib
ipm=importlib.import_module('prtpy.partitioning.integer_programming')
ipm.mip.Model=M
print(prtpy.partition(algorithm=prt.ilp,numbins=3,items=[46,39,27,26,16,13,10],outputtype=out.Sums), len(made), made[0].preprocess)
ipm.mip.Model=Orig
# 2. fork fresh state
def forked(f):
    r,w=os.pipe(); pid=os.fork()
    if pid==0:
        os.close(r)
        try: res=repr(f())
        except Exception as e: res='EXC'+repr(e)
        os.write(w,res.encode()); os._exit(0)
    os.close(w); data=b''
    while True:
        c=os.read(r,65536)
        if not c: break
        data+=c
    os.waitpid(pid,0); return data.decode()
t0=time.time()
for i in range(20):
    x=forked(lambda: prtpy.partition(algorithm=prt.ilp,numbins=3,items=[46,39,27,26,16,13,10+i],outputtype=out.Sums))
print('fork ilp x20',time.time()-t0,x)
# 3. sys.monitoring locals
import sys
cgm=importlib.import_module('prtpy.partitioning.complete_greedy')
code=cgm.anytime.__code__
import inspect
src,start=inspect.getsourcelines(cgm.anytime)
target=[start+i for i,l in enumerate(src) if 'if lower_bound >= best_objective_value' in l][0]
TOOL=sys.monitoring.DEBUGGER_ID
sys.monitoring.use_tool_id(TOOL,'rv')
seen=[]
def cb(code_,line):
    if line==target:
        f=sys._getframe(1)
        seen.append((f.f_locals['lower_bound'],f.f_locals['best_objective_value'],f.f_locals['new_sums']))
    else:
        return sys.monitoring.DISABLE
sys.monitoring.register_callback(TOOL,sys.monitoring.events.LINE,cb)
sys.monitoring.set_local_events(TOOL,code,sys.monitoring.events.LINE)
t0=time.time()
prtpy.partition(algorithm=prt.complete_greedy,numbins=3,items=[46,39,27,26,16,13,10],outputtype=out.Sums)
print('monitored lines',len(seen),seen[:3],time.time()-t0)
sys.monitoring.set_local_events(TOOL,code,0)
