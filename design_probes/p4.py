import warnings, random, sys, time
warnings.simplefilter("ignore")
import prtpy
from prtpy import obj, out
from oracle import *
prt=prtpy.partitioning
rng=random.Random(int(sys.argv[1]) if len(sys.argv)>1 else 0)
N=int(sys.argv[2]) if len(sys.argv)>2 else 100
objs={'maxmin':obj.MaximizeSmallestSum,'minmax':obj.MinimizeLargestSum,'diff':obj.MinimizeDifference}
bad=0; t0=time.time(); cnt=0
for t in range(N):
    n=rng.randint(1,8); k=rng.randint(1,4)
    items=[rng.randint(0,rng.choice([5,30,200])) for _ in range(n)]
    for on,o in list(objs.items())+[('ksmall',None),('klarge',None)]:
        kk=None
        if o is None:
            kk=rng.randint(1,k+1)
            o=obj.MaximizeKSmallestSums(kk) if on=='ksmall' else obj.MinimizeKLargestSums(kk)
        want=opt(items,k,on,kk)
        try:
            s,l=prtpy.partition(algorithm=prt.ilp,numbins=k,items=items,outputtype=out.PartitionAndSumsTuple,objective=o)
            cnt+=1
            got=objval(on,list(s),kk)
            flat=sorted(x for b in l for x in b)
            if got!=want or flat!=sorted(items) or list(s)!=sorted(s):
                bad+=1; print('BAD',on,kk,items,k,list(s),want)
        except Exception as e:
            print('EXC',on,kk,items,k,repr(e)[:100])
print('n',cnt,'bad',bad,'time',time.time()-t0)
