import warnings, random, sys, itertools, math, copy
warnings.simplefilter("ignore")
import numpy as np
import prtpy
from prtpy import obj, out
from prtpy.packing import best_fit
prt=prtpy.partitioning
rng=random.Random(5)
palgs={'greedy':prt.greedy,'rr':prt.roundrobin,'multifit':prt.multifit,'kk':prt.kk,'cg':prt.complete_greedy,'ckk':prt.ckk,'snp':prt.snp,'rnp':prt.rnp,'dp':prt.dp,'ilp':prt.ilp,'cbldm':prt.cbldm}
kalgs={'ff':prtpy.packing.first_fit,'ffd':prtpy.packing.first_fit_decreasing,'bf':best_fit.online,'bfd':best_fit.decreasing,'bc':prtpy.packing.bin_completion,
       'cov_dec':prtpy.covering.decreasing,'cov23':prtpy.covering.twothirds,'cov34':prtpy.covering.threequarters}
calls=[]
for t in range(60):
    n=rng.randint(1,8); vals=[rng.randint(1,30) for _ in range(n)]
    a=rng.choice(list(palgs)+list(kalgs))
    if a in palgs: calls.append(('p',a,vals,2 if a=='cbldm' else rng.randint(1,4)))
    else: calls.append(('k',a,vals,rng.choice([30,40,60])))
def run(c):
    kind,a,vals,p=c
    v=list(vals); d={f"x{i}":x for i,x in enumerate(vals)}; d0=dict(d); arr=np.array(vals); arr0=arr.copy()
    try:
        if kind=='p':
            r=(repr(prtpy.partition(algorithm=palgs[a],numbins=p,items=v,outputtype=out.PartitionAndSumsTuple)),
               repr(prtpy.partition(algorithm=palgs[a],numbins=p,items=d,outputtype=out.PartitionAndSumsTuple)),
               repr(prtpy.partition(algorithm=palgs[a],numbins=p,items=arr,outputtype=out.PartitionAndSumsTuple)))
        else:
            r=(repr(prtpy.pack(algorithm=kalgs[a],binsize=p,items=v,outputtype=out.PartitionAndSumsTuple)),
               repr(prtpy.pack(algorithm=kalgs[a],binsize=p,items=arr,outputtype=out.PartitionAndSumsTuple)))
    except Exception as e: r=('EXC',repr(e)[:50])
    if v!=vals or d!=d0 or list(d)!=list(d0) or not (arr==arr0).all(): print('MUTATED INPUT',c)
    return r
base=[run(c) for c in calls]
again=[run(c) for c in calls]
print('repeat diffs',sum(a!=b for a,b in zip(base,again)))
order=list(range(len(calls))); rng.shuffle(order)
sh={i:run(calls[i]) for i in order}
print('history diffs',[calls[i][:2] for i in order if sh[i]!=base[i]])
