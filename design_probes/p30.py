import warnings, random, sys, time, signal
warnings.simplefilter("ignore")
import prtpy
from prtpy import out
prt=prtpy.partitioning
class TO(Exception): pass
def h(*a): raise TO()
signal.signal(signal.SIGALRM,h)
rng=random.Random(1)
for k in [5,6,7,8,9]:
    for n in [3,6,8,10]:
        row=[]
        for a,alg in [('cg',prt.complete_greedy),('ckk',prt.ckk),('snp',prt.snp),('dp',prt.dp),('ilp',prt.ilp)]:
            if a=='dp' and n>6: row.append((a,'-')); continue
            worst=0
            for rep in range(3):
                items=[rng.randint(1,rng.choice([20,200,2**40] if a!='ilp' else [20,200])) for _ in range(n)]
                t0=time.time(); signal.alarm(20)
                try: prtpy.partition(algorithm=alg,numbins=k,items=items,outputtype=out.Sums); 
                except TO: worst=99; break
                except Exception as e: worst=-1
                finally: signal.alarm(0)
                worst=max(worst,time.time()-t0)
            row.append((a,round(worst,2)))
        print(k,n,row,flush=True)
