import warnings, random, sys, time
warnings.simplefilter("ignore")
import prtpy
from prtpy import obj, out
prt=prtpy.partitioning
rng=random.Random(7)
algs={'cg':prt.complete_greedy,'ckk':prt.ckk,'snp':prt.snp,'rnp':prt.rnp,'ilp':prt.ilp,'dp':prt.dp}
for n,k,hi in [(11,2,200),(11,3,200),(12,4,200),(12,5,100),(14,3,200),(14,4,100),(16,2,200),(16,3,100),(16,5,50),(16,4,30)]:
    items=[rng.randint(1,hi) for _ in range(n)]
    row=[]
    for a,alg in algs.items():
        if a=='dp' and (k>=4 or (k==3 and n*hi>2500)): row.append((a,'skip')); continue
        t0=time.time()
        try:
            s=prtpy.partition(algorithm=alg,numbins=k,items=items,outputtype=out.Sums)
            row.append((a,round(time.time()-t0,2),max(s)-min(s)))
        except Exception as e: row.append((a,'EXC',repr(e)[:40]))
    print(n,k,hi,row,flush=True)
