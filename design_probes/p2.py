import warnings, random, sys, time
warnings.simplefilter("ignore")
import prtpy
from prtpy import obj, out
from oracle import *
prt=prtpy.partitioning
rng=random.Random(int(sys.argv[1]) if len(sys.argv)>1 else 0)
N=int(sys.argv[2]) if len(sys.argv)>2 else 300
algs={'ckk':(prt.ckk,{}),'snp':(prt.snp,{}),'rnp':(prt.rnp,{}),'cg':(prt.complete_greedy,{})}
bad={a:0 for a in algs}; exc={a:0 for a in algs}; tot={a:0 for a in algs}; tm={a:0.0 for a in algs}
ex={}
for t in range(N):
    n=rng.randint(1,9); k=rng.randint(1,5)
    hi=rng.choice([3,10,100,1000])
    items=[rng.randint(1,hi) for _ in range(n)]
    o=opt(items,k,'diff')
    for a,(alg,kw) in algs.items():
        tot[a]+=1
        t0=time.time()
        try:
            s=prtpy.partition(algorithm=alg,numbins=k,items=items,outputtype=out.Sums,**kw)
            d=max(s)-min(s)
            if d!=o or len(s)!=k or abs(sum(s)-sum(items))>1e-9:
                bad[a]+=1; ex.setdefault(a,[]).append((items,k,d,o))
        except Exception as e:
            exc[a]+=1; ex.setdefault(a+'_exc',[]).append((items,k,repr(e)[:80]))
        tm[a]+=time.time()-t0
print('tot',tot);print('bad',bad);print('exc',exc);print('time',tm)
for a,l in ex.items(): print(a,l[:6])
