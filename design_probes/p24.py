import warnings, random, sys
warnings.simplefilter("ignore")
import numpy as np, prtpy
from prtpy import out
from collections import Counter
prt=prtpy.partitioning
rng=random.Random(int(sys.argv[1])); N=int(sys.argv[2]); res=Counter()
algs={'ckk':prt.ckk,'snp':prt.snp,'rnp':prt.rnp,'cg':prt.complete_greedy,'kk':prt.kk}
norm=lambda s: sorted(float(x) for x in s)
for t in range(N):
    n=rng.randint(3,9); k=rng.randint(3,5)
    vals=[rng.randint(1,rng.choice([4,10,40])) for _ in range(n)]
    names=[f"n{j:02d}" for j in range(n)]; rng.shuffle(names); d=dict(zip(names,vals))
    for a,alg in algs.items():
        base=norm(prtpy.partition(algorithm=alg,numbins=k,items=vals,outputtype=out.Sums))
        s1=norm(prtpy.partition(algorithm=alg,numbins=k,items=d,outputtype=out.Sums))
        s2,l2=prtpy.partition(algorithm=alg,numbins=k,items=d,outputtype=out.PartitionAndSumsTuple)
        s3,l3=prtpy.partition(algorithm=alg,numbins=k,items=vals,outputtype=out.PartitionAndSumsTuple)
        if not (base==s1==norm(s2)==norm(s3)): res[a]+=1; print(a,vals,k,base,s1,norm(s2),norm(s3))
    res['n']+=1
print(res)
