import warnings, random, sys, itertools, math
warnings.simplefilter("ignore")
import numpy as np
from prtpy import BinnerKeepingContents
from collections import Counter
rng=random.Random(1); res=Counter()
for t in range(3000):
    k=rng.randint(1,4)
    names=iter(range(1000,2000)); val={}
    def mk():
        lists=[]
        for i in range(k):
            l=[]
            for j in range(rng.randint(0,2)):
                nm=next(names); val[nm]=rng.randint(0,4); l.append(nm)
            lists.append(l)
        return lists
    l1=mk(); l2=mk()
    b=BinnerKeepingContents(val.__getitem__)
    def arr(ls):
        bins=b.new_bins(k)
        for i,l in enumerate(ls):
            for x in l: b.add_item_to_bin(bins,x,i)
        b.sort_by_ascending_sum(bins); return bins
    a1=arr(l1); a2=arr(l2)
    got=[]
    for s,l in b.all_combinations(a1,a2):
        if any(abs(sum(val[x] for x in bb)-ss)>1e-9 for bb,ss in zip(l,s)): res['sums_bad']+=1
        got.append(tuple(sorted(tuple(sorted(bb)) for bb in l)))
    want={tuple(sorted(tuple(sorted(a1[1][p[i]]+a2[1][i])) for i in range(k))) for p in itertools.permutations(range(k))}
    if set(got)!=want: res['incomplete']+=1
    if len(got)!=len(set(got)): res['dups']+=1; 
    if len(got)!=len(set(got)) and res['dups']<4: print(a1,a2,got)
    res['n']+=1
print(res)
