import warnings, random, sys, time, itertools
warnings.simplefilter("ignore")
import numpy as np
import prtpy
from prtpy import obj, out
from collections import Counter
prt=prtpy.partitioning
rng=random.Random(3)
palgs={'greedy':prt.greedy,'rr':prt.roundrobin,'multifit':prt.multifit,'kk':prt.kk,'cg':prt.complete_greedy,'ckk':prt.ckk,'snp':prt.snp,'rnp':prt.rnp,'dp':prt.dp,'ilp':prt.ilp,'cbldm':prt.cbldm}
from prtpy.packing import best_fit
kalgs={'ff':prtpy.packing.first_fit,'ffd':prtpy.packing.first_fit_decreasing,'bf':best_fit.online,'bfd':best_fit.decreasing,'bc':prtpy.packing.bin_completion,
       'cov_dec':prtpy.covering.decreasing,'cov23':prtpy.covering.twothirds,'cov34':prtpy.covering.threequarters}
res=Counter(); ex={}
def norm(s): return sorted(float(x) for x in s)
for t in range(150):
    n=rng.randint(1,8)
    vals=[rng.randint(1,30) for _ in range(n)]
    for kind in ['str','int']:
        if kind=='str': names=[f"n{j}" for j in range(n)]; rng.shuffle(names)
        else:
            names=rng.sample(range(1000,1100),n)
            if rng.random()<0.5: names=rng.sample(range(0,40),n)  # ints colliding with value range
        d=dict(zip(names,vals))
        for a,alg in palgs.items():
            k=2 if a=='cbldm' else rng.randint(1,4)
            try:
                base=prtpy.partition(algorithm=alg,numbins=k,items=vals,outputtype=out.Sums)
                s1,l1=prtpy.partition(algorithm=alg,numbins=k,items=d,outputtype=out.PartitionAndSumsTuple)
                s2,l2=prtpy.partition(algorithm=alg,numbins=k,items=names,valueof=d.__getitem__,outputtype=out.PartitionAndSumsTuple)
                s3=prtpy.partition(algorithm=alg,numbins=k,items=np.array(vals),outputtype=out.Sums)
                ok = norm(base)==norm(s1)==norm(s2)==norm(s3) and sorted(map(str,(x for b in l1 for x in b)))==sorted(map(str,names)) and all(abs(sum(d[x] for x in b)-s)<1e-9 for b,s in zip(l1,s1))
                res[(a,kind,'ok' if ok else 'BAD')]+=1
                if not ok: ex.setdefault((a,kind),[]).append((vals,names,k,norm(base),norm(s1),l1))
            except Exception as e:
                res[(a,kind,'EXC')]+=1; ex.setdefault((a,kind,'exc'),[]).append((vals,names,k,repr(e)[:80]))
        C=rng.choice([30,40,60])
        for a,alg in kalgs.items():
            try:
                base=prtpy.pack(algorithm=alg,binsize=C,items=vals,outputtype=out.Sums)
                s1,l1=prtpy.pack(algorithm=alg,binsize=C,items=d,outputtype=out.PartitionAndSumsTuple)
                s2,l2=prtpy.pack(algorithm=alg,binsize=C,items=names,valueof=d.__getitem__,outputtype=out.PartitionAndSumsTuple)
                s3=prtpy.pack(algorithm=alg,binsize=C,items=np.array(vals),outputtype=out.Sums)
                ok = norm(base)==norm(s1)==norm(s2)==norm(s3) and all(abs(sum(d[x] for x in b)-s)<1e-9 for b,s in zip(l1,s1))
                res[(a,kind,'ok' if ok else 'BAD')]+=1
                if not ok: ex.setdefault((a,kind),[]).append((vals,names,C,norm(base),norm(s1),l1))
            except Exception as e:
                res[(a,kind,'EXC')]+=1; ex.setdefault((a,kind,'exc'),[]).append((vals,names,C,repr(e)[:80]))
for k,v in sorted(res.items()):
    if k[2]!='ok': print(k,v)
for k,v in ex.items(): print(k,v[:2])
