import warnings, random, sys, time as realtime, itertools, math
warnings.simplefilter("ignore")
import numpy as np
import prtpy
from prtpy import obj, out, BinnerKeepingContents
from collections import Counter
import importlib; cgm=importlib.import_module("prtpy.partitioning.complete_greedy")
cbm=importlib.import_module("prtpy.partitioning.cbldm")
from oracle import *
class Clock:
    def __init__(self): self.n=0
    def perf_counter(self):
        self.n+=1; return self.n
rng=random.Random(int(sys.argv[1]) if len(sys.argv)>1 else 0)
N=int(sys.argv[2]) if len(sys.argv)>2 else 50
res=Counter()
objs={'maxmin':obj.MaximizeSmallestSum,'minmax':obj.MinimizeLargestSum,'diff':obj.MinimizeDifference}
for t in range(N):
    n=rng.randint(1,8); k=rng.randint(1,4)
    items=[rng.randint(1,rng.choice([5,30,300])) for _ in range(n)]
    on=rng.choice(list(objs))
    if on=='maxmin' and k==1: continue
    # full run length
    ck=Clock(); cgm.time=ck
    full=cgm.anytime(BinnerKeepingContents(),k,items,objective=objs[on])
    total=ck.n
    want=opt(items,k,on)
    lpt=sorted(prtpy.partition(algorithm=prtpy.partitioning.greedy,numbins=k,items=items,outputtype=out.Sums))
    prev=None; first=True
    for L in range(0,total+2):
        ck=Clock(); cgm.time=ck
        r=cgm.anytime(BinnerKeepingContents(),k,items,objective=objs[on],time_limit=L)
        res['runs']+=1
        if r is None: res['none']+=1; 
        else:
            s,l=r
            if Counter(x for b in l for x in b)!=Counter(items) or len(l)!=k: res['invalid']+=1; print('INVALID',items,k,on,L,l)
            v=objval(on,[sum(b) for b in l])
            if first:
                first=False
                if sorted(s)!=lpt: res['first_not_lpt']+=1; print('first',items,k,on,L,sorted(s),lpt)
            if prev is not None and v>prev: res['worse']+=1; print('WORSE',items,k,on,L,v,prev)
            prev=v
    if prev!=want: res['final_subopt']+=1; print('finalsubopt',items,k,on,prev,want)
    if r is None: print("never",items,k,on)
# cbldm
for t in range(N):
    n=rng.randint(1,8)
    items=[rng.randint(0,rng.choice([5,30,300])) for _ in range(n)]
    ck=Clock(); cbm.time=ck
    full=cbm.cbldm(BinnerKeepingContents(),2,items)
    total=ck.n; prev=None
    for L in range(1,total+2):
        ck=Clock(); cbm.time=ck
        r=cbm.cbldm(BinnerKeepingContents(),2,items,time_limit=L)
        res['cb_runs']+=1
        s,l=r
        if list(s)==[0,np.inf]: res['cb_placeholder']+=1; continue
        if Counter(x for b in l for x in b)!=Counter(items): res['cb_invalid']+=1; print('CBINV',items,L,r)
        v=abs(s[0]-s[1])
        if prev is not None and v>prev: res['cb_worse']+=1
        prev=v
    if prev!=abs(full[0][0]-full[0][1]): res['cb_final']+=1
print(res)
