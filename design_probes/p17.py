import warnings, random, sys, time, itertools
warnings.simplefilter("ignore")
import prtpy
from prtpy import out
from collections import Counter
from ob import optbins
from prtpy.packing import best_fit
rng=random.Random(int(sys.argv[1])); N=int(sys.argv[2])
bc=prtpy.packing.bin_completion
stats=Counter(); ex={}
for t in range(N):
    n=rng.randint(5,13); C=rng.choice([12,20,30,50,100])
    mode=rng.random()
    if mode<.4: pool=[rng.randint(max(1,C//8),C//2) for _ in range(4)]; items=[rng.choice(pool) for _ in range(n)]
    elif mode<.8: items=[rng.randint(max(1,C//8),C//2) for _ in range(n)]
    else: items=[rng.randint(1,C) for _ in range(n)]
    t0=time.time()
    try:
        sums,lists=prtpy.pack(algorithm=bc,binsize=C,items=items,outputtype=out.PartitionAndSumsTuple)
        cnt=prtpy.pack(algorithm=bc,binsize=C,items=items,outputtype=out.BinCount)
        ss=prtpy.pack(algorithm=bc,binsize=C,items=items,outputtype=out.Sums)
    except Exception as e:
        stats['exc']+=1; ex.setdefault('exc',[]).append((items,C,repr(e)[:60])); continue
    stats['t']+=time.time()-t0
    flat=Counter(x for l in lists for x in l)
    if flat!=Counter(items): stats['multiset']+=1; ex.setdefault('multiset',[]).append((items,C,lists))
    elif any(sum(l)>C for l in lists): stats['overfull']+=1
    else:
        o=optbins(items,C)
        if len(lists)!=o: stats['subopt']+=1; ex.setdefault('subopt',[]).append((items,C,len(lists),o))
        else: stats['ok']+=1
        if cnt!=len(lists) or len(ss)!=cnt: stats['bincount_differs']+=1; ex.setdefault('cnt',[]).append((items,C,len(lists),cnt))
        bfd=prtpy.pack(algorithm=best_fit.decreasing,binsize=C,items=items,outputtype=out.BinCount)
        if bfd>o: stats['bfd_nonopt']+=1
print(stats)
for k,v in ex.items(): print(k,v[:4])
