import warnings, random, sys, itertools, math, copy
warnings.simplefilter("ignore")
import numpy as np
import prtpy
from prtpy import obj, out
from prtpy.packing import best_fit
from collections import Counter
prt=prtpy.partitioning
rng=random.Random(int(sys.argv[1]) if len(sys.argv)>1 else 0)
N=int(sys.argv[2]) if len(sys.argv)>2 else 200
palgs={'greedy':(prt.greedy,{}),'rr':(prt.roundrobin,{}),'multifit':(prt.multifit,{}),'kk':(prt.kk,{}),'cg':(prt.complete_greedy,{}),'cg_mm':(prt.complete_greedy,{'objective':obj.MinimizeLargestSum}),'cg_mx':(prt.complete_greedy,{'objective':obj.MaximizeSmallestSum}),'ckk':(prt.ckk,{}),'snp':(prt.snp,{}),'rnp':(prt.rnp,{}),'dp':(prt.dp,{}),'ilp':(prt.ilp,{}),'cbldm':(prt.cbldm,{})}
kalgs={'ff':prtpy.packing.first_fit,'ffd':prtpy.packing.first_fit_decreasing,'bf':best_fit.online,'bfd':best_fit.decreasing,'bc':prtpy.packing.bin_completion,
       'cov_dec':prtpy.covering.decreasing,'cov23':prtpy.covering.twothirds,'cov34':prtpy.covering.threequarters}
res=Counter()
def f(x): return [float(v) for v in x]
for t in range(N):
    n=rng.randint(1,8); vals=[rng.randint(1,rng.choice([5,30,300])) for _ in range(n)]
    for a,(alg,kw) in palgs.items():
        k=2 if a=='cbldm' else rng.randint(2,5)
        if a=='dp' and k>=4 and n>7: continue
        try:
            s,l=prtpy.partition(algorithm=alg,numbins=k,items=vals,outputtype=out.PartitionAndSumsTuple,**kw)
            s2=prtpy.partition(algorithm=alg,numbins=k,items=vals,outputtype=out.Sums,**kw)
            part=prtpy.partition(algorithm=alg,numbins=k,items=vals,outputtype=out.Partition,**kw)
        except Exception as e: res[(a,'exc')]+=1; continue
        if any(abs(sum(b)-x)>1e-9 for b,x in zip(l,s)): res[(a,'sum!=contents')]+=1
        if f(s)!=f(s2):
            res[(a,'sums differ ordered')]+=1
            if sorted(f(s))!=sorted(f(s2)): res[(a,'sums differ multiset')]+=1; print(a,vals,k,f(s),f(s2))
        if part!=l: res[(a,'partition differs')]+=1
    C=rng.choice([30,40,60]); vals=[rng.randint(1,30) for _ in range(n+3)]
    for a,alg in kalgs.items():
        s,l=prtpy.pack(algorithm=alg,binsize=C,items=vals,outputtype=out.PartitionAndSumsTuple)
        s2=prtpy.pack(algorithm=alg,binsize=C,items=vals,outputtype=out.Sums)
        if any(abs(sum(b)-x)>1e-9 for b,x in zip(l,s)): res[(a,'sum!=contents')]+=1
        if f(s)!=f(s2):
            res[(a,'sums differ ordered')]+=1
            if sorted(f(s))!=sorted(f(s2)): res[(a,'sums differ multiset')]+=1
    res['n']+=1
for k,v in sorted(res.items(),key=str): print(k,v)
