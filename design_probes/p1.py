import warnings, itertools, random, sys, traceback
import numpy as np
import prtpy
from prtpy import obj, out
prt = prtpy.partitioning
warnings.simplefilter("ignore")
algs = {
 'greedy':(prt.greedy,{}), 'roundrobin':(prt.roundrobin,{}), 'multifit':(prt.multifit,{}), 'kk':(prt.kk,{}),
 'cg':(prt.complete_greedy,{}), 'cg_maxmin':(prt.complete_greedy,{'objective':obj.MaximizeSmallestSum}),
 'cg_minmax':(prt.complete_greedy,{'objective':obj.MinimizeLargestSum}),
 'cg_noseen':(prt.complete_greedy,{'use_set_of_seen_states':False}),
 'ckk':(prt.ckk,{}), 'snp':(prt.snp,{}), 'rnp':(prt.rnp,{}), 'dp':(prt.dp,{}), 'ilp':(prt.ilp,{}),
}
cases = [([5,0],2),([0],1),([0,0,0],2),([3,3,3],3),([7],3),([4,5,6,7,8],1),([4,5,6,7,8],6),([4,5,6,7,8],7),([4,5,6,7,8],8),([1,2,3,4,5,6,7,8,9,10],6),([5,4,0,3],3)]
for name,(alg,kw) in algs.items():
    for items,k in cases:
        try:
            r = prtpy.partition(algorithm=alg, numbins=k, items=items, outputtype=out.PartitionAndSumsTuple, **kw)
            if r is None or r[0] is None: res='NONE'
            else:
                sums,lists=r
                flat=sorted(x for l in lists for x in l)
                ok = flat==sorted(items) and len(lists)==k and all(abs(sum(l)-s)<1e-9 for l,s in zip(lists,sums))
                res='ok' if ok else f'BAD {list(sums)} {lists}'
        except Exception as e:
            res=f'EXC {type(e).__name__}: {str(e)[:60]}'
        if res!='ok': print(name,items,k,res)
