import warnings, random, sys, math
warnings.simplefilter("ignore")
import prtpy
from prtpy import out
from prtpy.packing import best_fit
from fractions import Fraction as F
from collections import Counter
prt=prtpy.partitioning
rng=random.Random(int(sys.argv[1])); N=int(sys.argv[2]); res=Counter()
def split(total,parts):
    cuts=sorted(rng.sample(range(1,total),parts-1)) if parts>1 else []
    return [b-a for a,b in zip([0]+cuts,cuts+[total])]
worst=[]
for t in range(N):
    # planted cover: OPT bins exactly full
    C=rng.choice([12,60,100,1000,1200]); opt=rng.randint(1,60)
    items=[]
    for b in range(opt):
        m=rng.choice([1,2,2,3,3,4,6,10]); m=min(m,C-1) or 1
        items+=split(C,m) if m>1 else [C]
    # optionally add small leftover dust < C total
    if rng.random()<.5:
        d=rng.randint(1,C-1); items+=split(d,rng.randint(1,min(d,5))) if d>1 else [1]
    rng.shuffle(items)
    for a,alg,bound in [('dec',prtpy.covering.decreasing,lambda o:F(o-1,2)),('23',prtpy.covering.twothirds,lambda o:F(2,3)*(o-1)),('34',prtpy.covering.threequarters,lambda o:F(3,4)*o-4)]:
        c=prtpy.pack(algorithm=alg,binsize=C,items=items,outputtype=out.BinCount)
        if c<bound(opt) or c>opt: res[a+'_cover_bound']+=1; print(a,'cover',C,opt,c,sorted(items))
        worst.append((a,F(c,opt)))
    # planted packing: OPT bins exactly full (no dust)
    items=[]
    for b in range(opt):
        m=rng.choice([1,2,2,3,3,4,5]); m=min(m,C-1) or 1
        items+=split(C,m) if m>1 else [C]
    rng.shuffle(items)
    for a,alg,bound in [('ff',prtpy.packing.first_fit,lambda o:math.floor(1.7*o)),('bf',best_fit.online,lambda o:math.floor(1.7*o)),('ffd',prtpy.packing.ffd,lambda o:F(11,9)*o+F(6,9)),('bfd',best_fit.decreasing,lambda o:F(11,9)*o+4)]:
        c=prtpy.pack(algorithm=alg,binsize=C,items=items,outputtype=out.BinCount)
        if c>bound(opt) or c<opt: res[a+'_pack_bound']+=1; print(a,'pack',C,opt,c)
    # planted partition: k bins each sum T
    k=rng.randint(2,8); T=rng.choice([30,100,1000,10**6]); items=[]
    for b in range(k): items+=split(T,rng.randint(1,min(6,T-1)))
    rng.shuffle(items)
    for a,alg in [('greedy',prt.greedy),('kk',prt.kk)]:
        s=prtpy.partition(algorithm=alg,numbins=k,items=items,outputtype=out.Sums)
        if F(int(max(s)))>(F(4,3)-F(1,3*k))*T: res[a+'_ratio']+=1; print(a,'ratio',items,k,T,max(s))
        if max(s)-min(s)>max(items): res[a+'_gap']+=1
        if a=='greedy' and F(int(min(s)))<F(3*k-1,4*k-2)*T: res['greedy_min']+=1; print('greedymin',items,k,T,min(s))
    s=prtpy.partition(algorithm=prt.multifit,numbins=k,items=items,outputtype=out.Sums)
    if len(s)>k or max(s)>(1.22+2**-10)*T: res['multifit']+=1; print('multifit',items,k,T,max(s),len(s))
    res['n']+=1
print(res)
import collections
m=collections.defaultdict(lambda:1)
for a,r in worst: m[a]=min(m[a],r)
print({a:float(r) for a,r in m.items()})
