import warnings, random, sys
warnings.simplefilter("ignore")
import prtpy
from prtpy import out
from prtpy.packing import best_fit
from collections import Counter
import refs
prt=prtpy.partitioning
rng=random.Random(int(sys.argv[1])); N=int(sys.argv[2]); res=Counter()
def ms(b): return sorted(sorted(x) for x in b)
for t in range(N):
    n=rng.randint(1,14); C=rng.choice([6,12,30,60,600])
    mode=rng.random()
    if mode<.3: vals=[rng.choice([C//2,C//3,C//6,C//2-1,C//3-1,C//3+1,C//2+1,1,C]) for _ in range(n)]
    elif mode<.6: vals=[rng.randint(1,C) for _ in range(n)]
    else: vals=[rng.randint(1,2*C) for _ in range(n)]
    k=rng.randint(1,5)
    s=prtpy.partition(algorithm=prt.greedy,numbins=k,items=vals,outputtype=out.Sums)
    if sorted(s)!=sorted(refs.lpt(vals,k)): res['lpt']+=1
    l=prtpy.partition(algorithm=prt.roundrobin,numbins=k,items=vals,outputtype=out.Partition)
    if ms(l)!=ms(refs.rr(vals,k)): res['rr']+=1
    pv=[min(v,C) for v in vals]
    for nm,alg,ref,strict in [('ff',prtpy.packing.first_fit,refs.ff,1),('ffd',prtpy.packing.ffd,refs.ffd,1),('bf',best_fit.online,refs.bf,0),('bfd',best_fit.decreasing,refs.bfd,0)]:
        l=prtpy.pack(algorithm=alg,binsize=C,items=pv,outputtype=out.Partition)
        r=ref(pv,C)
        if (ms(l)!=ms(r)) if strict else (sorted(map(sum,l))!=sorted(map(sum,r))): res[nm]+=1; print(nm,pv,C,l,r)
    for nm,alg,ref in [('dec',prtpy.covering.decreasing,refs.nfd_cover),('23',prtpy.covering.twothirds,refs.twothirds),('34',prtpy.covering.threequarters,refs.threequarters)]:
        l=prtpy.pack(algorithm=alg,binsize=C,items=vals,outputtype=out.Partition)
        r=ref(vals,C)
        if ms(l)!=ms(r): res[nm]+=1; print(nm,vals,C,l,r)
    res['n']+=1
print(res)
