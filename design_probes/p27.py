import warnings, random, sys, time
warnings.simplefilter("ignore")
import prtpy
from prtpy import out
from collections import Counter
from ob import optbins
rng=random.Random(int(sys.argv[1])); N=int(sys.argv[2])
bc=prtpy.packing.bin_completion
st=Counter(); t0=time.time()
for t in range(N):
    C=rng.choice([12,20,24,30])
    nd=rng.randint(2,4); pool=[rng.randint(max(1,C//6),C//2) for _ in range(nd)]
    items=[]
    for v in pool: items+= [v]*rng.randint(1,5)
    items=items[:13]; rng.shuffle(items)
    cnt=prtpy.pack(algorithm=bc,binsize=C,items=items,outputtype=out.BinCount)
    o=optbins(items,C)
    st['n']+=1
    if cnt!=o: st['subopt']+=1; print(items,C,cnt,o)
print(st,time.time()-t0)
