import warnings, random, sys, itertools, math
warnings.simplefilter("ignore")
import numpy as np
import prtpy
from prtpy import obj, out, BinnerKeepingContents, BinnerKeepingSums
from prtpy.inclusion_exclusion_tree import InExclusionBinTree
from collections import Counter
res=Counter()
def comps(R,k):
    if k==1: yield (R,); return
    for a in range(R+1):
        for rest in comps(R-a,k-1): yield (a,)+rest
objs={'maxmin':(obj.MaximizeSmallestSum,lambda s:-min(s)),'minmax':(obj.MinimizeLargestSum,max),'diff':(obj.MinimizeDifference,lambda s:max(s)-min(s))}
for k in [1,2,3,4]:
    for s in itertools.combinations_with_replacement(range(0,7),k):
        for R in range(0,9):
            for on,(o,f) in objs.items():
                best=min(f([x+y for x,y in zip(s,a)]) for a in comps(R,k))
                for typ in (list,tuple,np.array):
                    lb1=o.lower_bound(typ(s),R,are_sums_in_ascending_order=True)
                    lb2=o.lower_bound(typ(s),R,are_sums_in_ascending_order=False)
                    res['n']+=1
                    if lb1!=lb2: res['dep']+=1; print('DEP',on,s,R,lb1,lb2)
                    if lb1>best: res['inadm']+=1; print('INADM',on,s,R,lb1,best)
                    if lb1<best: res['loose_'+on]+=1
print(res)
# in-ex tree
rng=random.Random(1)
for t in range(2000):
    n=rng.randint(0,8); items=[rng.randint(0,rng.choice([3,10])) for _ in range(n)]
    lo=rng.randint(-2,20); hi=rng.randint(-2,25)
    if rng.random()<.3: lo=rng.uniform(0,10); hi=rng.uniform(lo,20)
    names=list(range(100,100+n)); val=dict(zip(names,items))
    got=[tuple(sorted(x)) for x in InExclusionBinTree(names,val.__getitem__,upper_bound=hi,lower_bound=lo).generate_tree()]
    want=[tuple(sorted(c)) for r in range(n+1) for c in itertools.combinations(names,r) if lo<=sum(val[x] for x in c)<=hi]
    if sorted(got)!=sorted(want): res['tree_bad']+=1; print('TREE',items,lo,hi,len(got),len(want))
    res['tree_n']+=1
# all_combinations
for t in range(600):
    k=rng.randint(1,4)
    a=sorted(rng.randint(0,6) for _ in range(k)); b=sorted(rng.randint(0,6) for _ in range(k))
    got=[tuple(x) for x in BinnerKeepingSums().all_combinations(np.array(a,dtype=float),np.array(b,dtype=float))]
    want={tuple(sorted(a[p[i]]+b[i] for i in range(k))) for p in itertools.permutations(range(k))}
    if len(got)!=len(set(got)) or set(got)!=want: res['comb_sums_bad']+=1; print('COMB',a,b,got,want)
    # contents
    la=[[ (i,'a',j) for j in range(rng.randint(0,2))] for i in range(k)]
    res['comb_n']+=1
print(res)
