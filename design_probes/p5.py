import warnings, random, sys, time, itertools
warnings.simplefilter("ignore")
import prtpy
from prtpy import obj, out
prt=prtpy.partitioning
rng=random.Random(1)
# weights
def brute_weighted(items,k,w,on):
    best=None
    for assign in itertools.product(range(k),repeat=len(items)):
        s=[0]*k
        for v,a in zip(items,assign): s[a]+=v
        ws=[s[i]/w[i] for i in range(k)]
        if any(ws[i+1]<ws[i]-1e-12 for i in range(k-1)): pass  # symmetric breaker only; ignore
        val={'maxmin':-min(ws),'minmax':max(ws),'diff':max(ws)-min(ws)}[on]
        if best is None or val<best-1e-12: best=val
    return best
objs={'maxmin':obj.MaximizeSmallestSum,'minmax':obj.MinimizeLargestSum,'diff':obj.MinimizeDifference}
bad=0
for t in range(150):
    n=rng.randint(1,6); k=rng.randint(2,3)
    items=[rng.randint(1,50) for _ in range(n)]
    w=[rng.choice([1,2,3,5,10]) for _ in range(k)]
    on=rng.choice(list(objs))
    try:
        s,l=prtpy.partition(algorithm=prt.ilp,numbins=k,items=items,outputtype=out.PartitionAndSumsTuple,objective=objs[on],weights=w)
    except Exception as e:
        print('EXC',items,k,w,on,repr(e)[:80]); continue
    s=list(s)
    ws=[s[i]/w[i] for i in range(k)]
    val={'maxmin':-min(ws),'minmax':max(ws),'diff':max(ws)-min(ws)}[on]
    want=brute_weighted(items,k,w,on)
    aligned = abs(val-want)<1e-9
    # try any permutation
    anyperm = any(abs({'maxmin':-min(x),'minmax':max(x),'diff':max(x)-min(x)}[on]-want)<1e-9 for x in ([s[p[i]]/w[i] for i in range(k)] for p in itertools.permutations(range(k))))
    if not aligned:
        bad+=1
        if bad<8: print('MISALIGNED' if anyperm else 'SUBOPT',items,k,w,on,s,val,want)
print('bad',bad)
