import warnings, random, sys, time, itertools
warnings.simplefilter("ignore")
import prtpy
from prtpy import out
from collections import Counter
rng=random.Random(int(sys.argv[1]) if len(sys.argv)>1 else 0)
N=int(sys.argv[2]) if len(sys.argv)>2 else 300
def optbins(items, C):
    # exact min bins via DFS
    items=sorted(items,reverse=True)
    best=[len(items)]
    def rec(i,bins):
        if len(bins)>=best[0]: return
        if i==len(items): best[0]=len(bins); return
        v=items[i]; seen=set()
        for j in range(len(bins)):
            if bins[j]+v<=C and bins[j] not in seen:
                seen.add(bins[j]); bins[j]+=v; rec(i+1,bins); bins[j]-=v
        bins.append(v); rec(i+1,bins); bins.pop()
    rec(0,[]); return best[0]
stats=Counter(); ex={}
bc=prtpy.packing.bin_completion
for t in range(N):
    n=rng.randint(6,12); C=rng.choice([20,50,100])
    items=[rng.randint(max(1,C//8),C//2) for _ in range(n)]
    try:
        sums,lists=prtpy.pack(algorithm=bc,binsize=C,items=items,outputtype=out.PartitionAndSumsTuple)
    except Exception as e:
        stats['exc']+=1; ex.setdefault('exc',[]).append((items,C,repr(e)[:60])); continue
    flat=Counter(x for l in lists for x in l)
    if flat!=Counter(items): stats['multiset']+=1; ex.setdefault('multiset',[]).append((items,C,lists))
    elif any(sum(l)>C for l in lists): stats['overfull']+=1
    elif any(abs(sum(l)-s)>1e-9 for l,s in zip(lists,sums)): stats['sums']+=1
    else:
        o=optbins(items,C)
        if len(lists)!=o: stats['subopt']+=1; ex.setdefault('subopt',[]).append((items,C,len(lists),o))
        else: stats['ok']+=1
        bcnt=prtpy.pack(algorithm=bc,binsize=C,items=items,outputtype=out.BinCount)
        if bcnt!=len(lists): stats['bincount_differs']+=1
print(stats)
for k,v in ex.items(): print(k,v[:5])
