import warnings, random, sys, traceback
warnings.simplefilter("ignore")
import prtpy
from prtpy import out
from oracle import *
from collections import Counter
prt=prtpy.partitioning
rng=random.Random(int(sys.argv[1])); N=int(sys.argv[2]); res=Counter()
d=lambda s:max(s)-min(s)
for t in range(N):
    k=rng.choice([2,3,3,4,4,5,5,6,7,8]); n=rng.randint(1,9 if k<=5 else 8)
    items=[rng.randint(0,rng.choice([5,30,100,1000])) for _ in range(n)]
    try:
        s,l=prtpy.partition(algorithm=prt.rnp,numbins=k,items=items,outputtype=out.PartitionAndSumsTuple)
    except Exception as e:
        tb=traceback.extract_tb(e.__traceback__)
        res[(k>=6,'exc',type(e).__name__,tb[-1].filename.split('/')[-1] if tb[-1].filename.startswith('/repo') else [f.filename.split('/')[-1] for f in tb if f.filename.startswith('/repo')][-1])]+=1
        continue
    valid = Counter(x for b in l for x in b)==Counter(items) and len(l)==k
    if not valid: res[(k,'INVALID')]+=1; print('INVALID',items,k,l); continue
    o=opt(items,k,'diff'); r=d(s); kk=d(prtpy.partition(algorithm=prt.kk,numbins=k,items=items,outputtype=out.Sums))
    if r==o: res[(k,'opt')]+=1
    elif o<r<=kk: res[(k,'subopt_known')]+=1
    else: res[(k,'subopt_OTHER')]+=1; print('OTHER',items,k,r,o,kk)
for k,v in sorted(res.items(),key=str): print(k,v)
