import warnings, random, sys, itertools
warnings.simplefilter("ignore")
import prtpy
from prtpy import obj, out
from collections import Counter
prt=prtpy.partitioning
rng=random.Random(int(sys.argv[1])); N=int(sys.argv[2]); res=Counter()
objs={'maxmin':(obj.MaximizeSmallestSum,lambda w:-min(w)),'minmax':(obj.MinimizeLargestSum,lambda w:max(w)),'diff':(obj.MinimizeDifference,lambda w:max(w)-min(w))}
EPS=1e-6
for t in range(N):
    n=rng.randint(1,7); k=rng.randint(2,4)
    items=[rng.randint(0,200) for _ in range(n)]
    w=[rng.choice([1,2,3,5,10,0.5]) for _ in range(k)]
    if len(set(w))==1: continue
    on=rng.choice(list(objs)); o,f=objs[on]
    true_best=None; restr_best=None
    for assign in itertools.product(range(k),repeat=n):
        s=[0]*k
        for v,a in zip(items,assign): s[a]+=v
        ws=[s[i]/w[i] for i in range(k)]
        val=f(ws)
        if true_best is None or val<true_best: true_best=val
        if all(ws[i+1]>=ws[i]-EPS for i in range(k-1)):
            if restr_best is None or val<restr_best: restr_best=val
    try:
        s,l=prtpy.partition(algorithm=prt.ilp,numbins=k,items=items,outputtype=out.PartitionAndSumsTuple,objective=o,weights=w)
    except Exception as e:
        res['exc']+=1; print('EXC',items,w,on,repr(e)[:80]); continue
    s=[float(x) for x in s]
    if Counter(x for b in l for x in b)!=Counter(items): res['invalid']+=1; continue
    strict = abs(f([s[i]/w[i] for i in range(k)])-true_best)<=EPS
    weak = any(all(ws[i+1]>=ws[i]-EPS for i in range(k-1)) and abs(f(ws)-restr_best)<=EPS for ws in ([s[p[i]]/w[i] for i in range(k)] for p in itertools.permutations(range(k))))
    res[('strict' if strict else 'notstrict','weak' if weak else 'NOTWEAK')]+=1
    if not weak: print('NOTWEAK',items,w,on,s,restr_best,true_best)
print(res)
