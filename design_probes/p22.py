import warnings, random, sys, itertools
warnings.simplefilter("ignore")
import numpy as np
from prtpy import BinnerKeepingSums, BinnerKeepingContents
from collections import Counter
rng=random.Random(int(sys.argv[1])); res=Counter()
vals={f"i{j}":rng.randint(0,9) for j in range(40)}
def check(b,arr,model,keep):
    s=b.sums(arr)
    if len(s)!=len(model): return 'len'
    for i,m in enumerate(model):
        if abs(s[i]-sum(vals[x] for x in m))>1e-9: return f'sum{i}'
    if keep:
        if [sorted(x) for x in arr[1]]!=[sorted(m) for m in model]: return 'lists'
    return None
for trial in range(3000):
    keep=rng.random()<.5
    b=(BinnerKeepingContents if keep else BinnerKeepingSums)(vals.__getitem__)
    pool=[]  # (arr, model)
    for step in range(rng.randint(1,25)):
        ops=['new']
        if pool: ops+=['add','add','copy','sort','addempty','remove','concat','combine']
        op=rng.choice(ops)
        if op=='new':
            k=rng.randint(0,4); pool.append((b.new_bins(k),[[] for _ in range(k)]))
        else:
            idx=rng.randrange(len(pool)); arr,model=pool[idx]
            if op=='add' and model:
                i=rng.randrange(len(model)); it=rng.choice(list(vals))
                if rng.random()<.2: i_=i-len(model)
                else: i_=i
                r=b.add_item_to_bin(arr,it,i_); model[i].append(it)
            elif op=='copy':
                pool.append((b.copy_bins(arr),[list(m) for m in model]))
            elif op=='sort':
                b.sort_by_ascending_sum(arr)
                order=sorted(range(len(model)),key=lambda i:sum(vals[x] for x in model[i]))
                sm=[model[i] for i in order]
                # ties: accept any order consistent: compare multiset of (sum,contents) and nondecreasing
                s=list(b.sums(arr))
                if s!=sorted(s): res['notsorted']+=1
                if keep:
                    got=sorted((sum(vals[x] for x in l),sorted(l)) for l in arr[1]); want=sorted((sum(vals[x] for x in m),sorted(m)) for m in model)
                    if got!=want: res['sort_contents']+=1
                    model[:]=[list(l) for l in arr[1]]
                else: model[:]=sm
            elif op=='addempty':
                k=rng.randint(0,2); new=b.add_empty_bins(arr,k)
                pool[idx]=(new,model+[[] for _ in range(k)])
            elif op=='remove' :
                k=rng.randint(0,len(model)); new=b.remove_bins(arr,k)
                pool[idx]=(new,model[:len(model)-k])
            elif op=='concat' and len(pool)>1:
                j=rng.randrange(len(pool))
                if j==idx: continue
                arr2,model2=pool[j]
                new=b.concatenate_bins(arr,arr2)
                e1=check(b,arr,model,keep); e2=check(b,arr2,model2,keep)
                if e1 or e2: res['concat_modified_arg']+=1
                for x in sorted([idx,j],reverse=True): pool.pop(x)
                pool.append((new,model+model2))
            elif op=='combine' and len(pool)>1 and model:
                j=rng.randrange(len(pool)); arr2,model2=pool[j]
                if not model2 or j==idx: continue
                i1=rng.randrange(len(model)); i2=rng.randrange(len(model2))
                b.combine_bins(arr,i1,arr2,i2); model[i1]+=list(model2[i2])
        for arr,model in pool:
            e=check(b,arr,model,keep)
            if e: res['mismatch_'+op+'_'+e+('_K' if keep else '_S')]+=1
    res['n']+=1
print(res)
