"""in-situ contract prototype: every lower_bound evaluation made by complete greedy is checked against the
exact best completion with the real remaining items (implies the relaxed bound of C13); PY_RETURN probe reads CG's counters."""
import warnings, random, sys, importlib, itertools
warnings.simplefilter("ignore")
import numpy as np, prtpy
from prtpy import obj, out, BinnerKeepingSums
from collections import Counter
rng=random.Random(int(sys.argv[1])); N=int(sys.argv[2]); res=Counter()
cgm=importlib.import_module("prtpy.partitioning.complete_greedy")
ctx={}
def best_completion(sums, rest, f):
    best=None
    for assign in itertools.product(range(len(sums)),repeat=len(rest)):
        s=list(sums)
        for v,a in zip(rest,assign): s[a]+=v
        val=f(s)
        if best is None or val<best: best=val
    return best
F={'MaximizeTheSmallestSum':lambda s:-min(s),'MinimizeTheLargestSum':max,'MinimizeTheDifference':lambda s:max(s)-min(s)}
states=set()
def wrap(cls):
    orig=cls.lower_bound
    def lb(self,sums,sum_of_remaining_items,are_sums_in_ascending_order=False):
        r=orig(self,sums,sum_of_remaining_items,are_sums_in_ascending_order)
        if ctx.get('items') is not None and type(self).__name__ in F and not ctx.get('nested'):
            ctx['nested']=True
            try:
                srt=sorted(ctx['items'],reverse=True)
                # remaining items = suffix whose total equals sum_of_remaining_items
                tot=0; suffix=[]
                for v in reversed(srt):
                    if tot==sum_of_remaining_items: break
                    suffix.append(v); tot+=v
                # zero-valued ambiguity is harmless (zeros do not change sums)
                if tot==sum_of_remaining_items and len(suffix)<=7:
                    res['lb_eval']+=1; states.add((tuple(float(x) for x in sums),float(sum_of_remaining_items),type(self).__name__))
                    b=best_completion([float(x) for x in sums],suffix,F[type(self).__name__])
                    if r>b: res['INADMISSIBLE']+=1; print('INADM',type(self).__name__,list(sums),suffix,r,b)
            finally: ctx['nested']=False
        return r
    cls.lower_bound=lb
for c in (obj.MaximizeTheSmallestSum,obj.MinimizeTheLargestSum,obj.MinimizeTheDifference): wrap(c)
# PY_RETURN probe
code=cgm.anytime.__code__; TOOL=sys.monitoring.PROFILER_ID; sys.monitoring.use_tool_id(TOOL,'rvprobe')
reach=Counter()
def on_return(code_,off,retval):
    f=sys._getframe(1)
    for k in ('times_fast_lower_bound_activated','times_lower_bound_activated','times_heuristic_3_activated','times_seen_state_skipped','complete_partitions_checked'):
        v=f.f_locals.get(k)
        if v: reach[k+'_runs']+=1; reach[k+'_total']+=v
    reach['returns']+=1
sys.monitoring.register_callback(TOOL,sys.monitoring.events.PY_RETURN,on_return)
sys.monitoring.set_local_events(TOOL,code,sys.monitoring.events.PY_RETURN)
objs=[obj.MaximizeSmallestSum,obj.MinimizeLargestSum,obj.MinimizeDifference]
for t in range(N):
    n=rng.randint(2,8); k=rng.randint(2,4); items=[rng.randint(1,rng.choice([5,30,300])) for _ in range(n)]
    ctx['items']=items
    for o in objs:
        for sw in itertools.product([False,True],repeat=4):
            kw=dict(zip(['use_lower_bound','use_fast_lower_bound','use_heuristic_3','use_set_of_seen_states'],sw))
            prtpy.partition(algorithm=prtpy.partitioning.complete_greedy,numbins=k,items=items,outputtype=out.Sums,objective=o,**kw)
print(res, 'distinct states',len(states)); print(dict(reach))
