import warnings, random, sys
warnings.simplefilter("ignore")
import prtpy
from prtpy import out, obj
from prtpy.packing import best_fit
from collections import Counter
prt=prtpy.partitioning
rng=random.Random(int(sys.argv[1])); N=int(sys.argv[2]); res=Counter()
f=lambda s: sorted(float(x) for x in s)
heur={'greedy':prt.greedy,'rr':prt.roundrobin,'kk':prt.kk,'multifit':prt.multifit}
exact={'cg':prt.complete_greedy,'ckk':prt.ckk,'snp':prt.snp,'rnp':prt.rnp,'dp':prt.dp,'ilp':prt.ilp}
packs={'ffd':prtpy.packing.ffd,'bfd':best_fit.decreasing,'ff':prtpy.packing.first_fit,'bf':best_fit.online,'dec':prtpy.covering.decreasing,'23':prtpy.covering.twothirds,'34':prtpy.covering.threequarters}
for t in range(N):
    n=rng.randint(1,8); k=rng.randint(1,4); vals=[rng.randint(0,rng.choice([5,30,100])) for _ in range(n)]
    perm=vals[:]; rng.shuffle(perm)
    for c in [2,3,7,10,1024]:
        for a,alg in heur.items():
            if a=='multifit' and c not in (2,1024): continue
            s=f(prtpy.partition(algorithm=alg,numbins=k,items=vals,outputtype=out.Sums))
            sc=f(prtpy.partition(algorithm=alg,numbins=k,items=[v*c for v in vals],outputtype=out.Sums))
            sp=f(prtpy.partition(algorithm=alg,numbins=k,items=perm,outputtype=out.Sums))
            if [x*c for x in s]!=sc: res[(a,'scale')]+=1; print(a,'scale',vals,k,c,s,sc)
            if s!=sp: res[(a,'perm')]+=1
    c=rng.choice([2,3,7,10,1024])
    for a,alg in exact.items():
        if a=='cg' and 0 in vals: continue
        if c*max(vals+[0])>200 and a=='ilp': cc=2 if 2*max(vals)<=200 else 1
        else: cc=c
        d=lambda s:max(s)-min(s)
        try:
            s=d(prtpy.partition(algorithm=alg,numbins=k,items=vals,outputtype=out.Sums))
            sc=d(prtpy.partition(algorithm=alg,numbins=k,items=[v*cc for v in vals],outputtype=out.Sums))
            sp=d(prtpy.partition(algorithm=alg,numbins=k,items=perm,outputtype=out.Sums))
            sz=d(prtpy.partition(algorithm=alg,numbins=k,items=vals+[0,0],outputtype=out.Sums)) if a!='cg' else s
        except Exception as e: res[(a,'exc')]+=1; continue
        if s*cc!=sc: res[(a,'scale')]+=1; print(a,'scale',vals,k,cc,s,sc)
        if s!=sp: res[(a,'perm')]+=1; print(a,'perm',vals,perm,k,s,sp)
        if s!=sz: res[(a,'zeros')]+=1; print(a,'zeros',vals,k,s,sz)
    C=rng.choice([30,60,100]); pv=[rng.randint(1,C) for _ in range(n+2)]; pp=pv[:]; rng.shuffle(pp)
    for a,alg in packs.items():
        s=f(prtpy.pack(algorithm=alg,binsize=C,items=pv,outputtype=out.Sums))
        sc=f(prtpy.pack(algorithm=alg,binsize=C*c,items=[v*c for v in pv],outputtype=out.Sums))
        if [x*c for x in s]!=sc: res[(a,'scale')]+=1; print(a,'scale',pv,C,c)
        if a not in ('ff','bf'):
            sp=f(prtpy.pack(algorithm=alg,binsize=C,items=pp,outputtype=out.Sums))
            if s!=sp: res[(a,'perm')]+=1; print(a,'perm',pv,pp,C)
    res['n']+=1
print(res)
