# independent reference transcriptions (values only)
def lpt(vals,k):
    s=[0]*k
    for v in sorted(vals,reverse=True):
        i=min(range(k),key=lambda j:s[j]); s[i]+=v
    return s
def rr(vals,k):
    b=[[] for _ in range(k)]
    for i,v in enumerate(sorted(vals,reverse=True)): b[i%k].append(v)
    return b
def ff(vals,C):
    b=[]
    for v in vals:
        for x in b:
            if sum(x)+v<=C: x.append(v); break
        else: b.append([v])
    return b
def ffd(vals,C): return ff(sorted(vals,reverse=True),C)
def bf(vals,C):
    b=[]
    for v in vals:
        best=None
        for x in b:
            if sum(x)+v<=C and (best is None or sum(x)>sum(best)): best=x
        if best is None: b.append([v])
        else: best.append(v)
    return b
def bfd(vals,C): return bf(sorted(vals,reverse=True),C)
def nfd_cover(vals,C):
    out=[];cur=[]
    for v in sorted(vals,reverse=True):
        cur.append(v)
        if sum(cur)>=C: out.append(cur);cur=[]
    return out
def twothirds(vals,C):
    it=sorted(vals,reverse=True); out=[];cur=[]
    while it:
        cur.append(it.pop(0))
        while it and sum(cur)<C: cur.append(it.pop())
        if sum(cur)>=C: out.append(cur);cur=[]
    return out
def threequarters(vals,C):
    it=sorted(vals,reverse=True)
    X=[v for v in it if 2*v>=C]; Y=[v for v in it if 3*v>=C and 2*v<C]; Z=[v for v in it if 3*v<C]
    out=[];cur=[]
    def nfd(seq):
        nonlocal cur
        for v in seq:
            cur.append(v)
            if sum(cur)>=C: out.append(cur);cur=[]
    while True:
        if not Z: nfd(X);nfd(Y);break
        if not X and not Y: nfd(Z);break
        bx=X[:1];by=Y[:2]
        if sum(bx)>=sum(by): cur+=bx; del X[:1]
        else: cur+=by; del Y[:len(by)]
        while Z and sum(cur)<C: cur.append(Z.pop())
        if sum(cur)>=C: out.append(cur);cur=[]
    return out
