#!/venv/bin/python
"""
W-repo (DESIGN.md §3): the repository's own test-suite (tests + doctests) executed under the in-situ monitors - the icontract contracts of C13 / C20 on lower_bound,
value_to_minimize, generate_tree, all_combinations (rv.monitors.Contracts, record mode) and the bins-array invariant of C06 (rv.monitors.BinsInvariant).
The suite's own pass/fail results are not judged here (tools/baseline_check.py does that); what is reported is how often each contract was evaluated on the suite's inputs
and every evaluation that refuted one. A contract that fires here is either too strict or a defect the suite does not assert - read the witness.
usage: tools/wrepo.py [repo]     exit 0 = no contract refuted, 1 = some were (printed)
"""
import json, os, sys
HERE = os.path.dirname(os.path.dirname(os.path.abspath(__file__)))
repo = os.path.abspath(sys.argv[1] if len(sys.argv) > 1 else os.environ.get("VERIF_REPO", "/repo"))
os.environ["VERIF_REPO"] = repo
sys.path[:0] = [repo, HERE, os.path.join(HERE, ".deps")]
os.chdir(repo)
from rv.monitors import Contracts, BinsInvariant
con = Contracts(mode="record")
con.install()
inv = BinsInvariant()
inv.install()
import pytest
rc = pytest.main(["-q", "-p", "no:cacheprovider", "--timeout=900", "--continue-on-collection-errors", "-x" if False else "-q", repo])
inv.uninstall()
con.uninstall()
broken = con.take_broken() + inv.take_broken()
print(json.dumps({"pytest_exit": int(rc), "contract_evaluations": dict(con.evals), "bins_arrays_checked": dict(inv.checked), "refuted": broken[:10], "refuted_count": len(broken)}, indent=1, default=str))
sys.exit(1 if broken else 0)
