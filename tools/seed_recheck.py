#!/venv/bin/python
"""
Sensitivity regression: re-run, against the CURRENT checks, the quick tier of the first check that is recorded as catching each given seeded change (seeded/<id>/meta.json 'caught_by'),
on a scratch tree (export of /repo HEAD + the seed's patch, removed afterwards). Appends the outcome to meta.json as 'final_recheck'.
usage: tools/seed_recheck.py <id> [<id> ...]
"""
import json, os, re, shutil, subprocess, sys, tempfile, time
HERE = os.path.dirname(os.path.dirname(os.path.abspath(__file__)))
for sid in sys.argv[1:]:
    d = os.path.join(HERE, "seeded", sid)
    m = json.load(open(os.path.join(d, "meta.json")))
    if not m.get("caught_by"):
        print(sid, "not caught by any check; skipped")
        continue
    prop = m["caught_by"][0]
    tmp = tempfile.mkdtemp(prefix="rv-recheck-")
    tree = os.path.join(tmp, "repo")
    os.makedirs(tree)
    try:
        subprocess.run(f"git -C /repo archive HEAD | tar -x -C {tree}", shell=True, check=True)
        p = subprocess.run(["git", "apply", os.path.join(d, "patch.diff")], cwd=tree, capture_output=True, text=True)
        if p.returncode != 0:
            p = subprocess.run(f"patch -p1 -s < {os.path.join(d, 'patch.diff')}", cwd=tree, shell=True, capture_output=True, text=True)
        if p.returncode != 0:
            print(sid, "patch does not apply to the current tree:", p.stderr[-200:])
            m["final_recheck"] = {"check": prop, "patch_applies": False}
        else:
            t = time.time()
            r = subprocess.run([os.path.join(HERE, "check"), prop, "--tier", "quick", "--no-evidence"], cwd=HERE, env=dict(os.environ, VERIF_REPO=tree), capture_output=True, text=True)
            kinds = re.findall(r"violation classes \(alg\|kind\|known-finding\): (\{.*\})", r.stdout)
            cl = json.loads(kinds[0]) if kinds else {}
            hits = sum(v for k, v in cl.items() if not k.split("|")[2])
            m["final_recheck"] = {"check": prop, "exit": r.returncode, "unexplained_hits": hits, "wall_s": round(time.time() - t, 1),
                                  "checks_commit": subprocess.run(["git", "-C", HERE, "rev-parse", "--short", "HEAD"], capture_output=True, text=True).stdout.strip()}
            print(sid, prop, "exit", r.returncode, "hits", hits)
        json.dump(m, open(os.path.join(d, "meta.json"), "w"), indent=1)
    finally:
        shutil.rmtree(tmp, ignore_errors=True)
