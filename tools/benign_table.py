#!/venv/bin/python
"""Print the markdown table of benign changes (benign/*/meta.json) for DESIGN.md §11.6."""
import glob, json, os, re
HERE = os.path.dirname(os.path.dirname(os.path.abspath(__file__)))
print("| id | file changed | what changes observably | checks run (quick tier, VERIF_REPO=<changed tree>) | alarms |")
print("|---|---|---|---|---|")
for mp in sorted(glob.glob(os.path.join(HERE, "benign", "*", "meta.json"))):
    m = json.load(open(mp))
    patch = open(os.path.join(os.path.dirname(mp), "patch.diff")).read()
    files = sorted(set(os.path.basename(f) for f in re.findall(r"^\+\+\+ b/(\S+)", patch, flags=re.M)))
    checks = ", ".join(f"{p}: exit {c['exit']}" for p, c in sorted(m["checks"].items()))
    print(f"| {m['id']} | {', '.join(files)} | {m.get('summary', '')} | {checks} | {', '.join(m.get('alarms', [])) or 'none'} |")
