#!/venv/bin/python
"""
False-alarm test: evaluate an independently written BENIGN change (behaviour changes, every property still holds) - benign/<id>/.
usage: tools/benigntest.py <id> <patch-file> <notes-file> <prop> [more props...]
Builds a scratch tree (export of /repo HEAD + patch) under /tmp, runs the repository's suite, runs ./check <prop> --tier quick with VERIF_REPO=<tree> for each prop,
removes the tree, writes benign/<id>/{patch.diff,notes.md,meta.json}. Every check is expected to exit 0 (exit 1 = false alarm to be analysed; 2 = inconclusive).
"""
import json, os, re, shutil, subprocess, sys, tempfile, time
HERE = os.path.dirname(os.path.dirname(os.path.abspath(__file__)))
bid, patch, notes = sys.argv[1:4]
props = sys.argv[4:]
dst = os.path.join(HERE, "benign", bid)
os.makedirs(dst, exist_ok=True)
tmp = tempfile.mkdtemp(prefix="rv-benign-")
tree = os.path.join(tmp, "repo")
os.makedirs(tree)
try:
    subprocess.run(f"git -C /repo archive HEAD | tar -x -C {tree}", shell=True, check=True)
    subprocess.run(["git", "apply", os.path.abspath(patch)], cwd=tree, check=True)
    meta = {"id": bid, "checked_against": props, "repo_head": subprocess.run(["git", "-C", "/repo", "rev-parse", "--short", "HEAD"], capture_output=True, text=True).stdout.strip()}
    for attempt in range(3):
        p = subprocess.run([os.path.join(HERE, "tools", "baseline_check.py"), tree], capture_output=True, text=True, env=dict(os.environ, PYTHONPATH=tree))
        if p.returncode == 0:
            break
    meta["suite_on_changed_tree"] = p.stdout.strip().splitlines()
    meta["suite_ok"] = p.returncode == 0
    meta["checks"] = {}
    for prop in props:
        t = time.time()
        r = subprocess.run([os.path.join(HERE, "check"), prop, "--tier", "quick", "--no-evidence"], cwd=HERE, env=dict(os.environ, VERIF_REPO=tree), capture_output=True, text=True)
        kinds = re.findall(r"violation classes \(alg\|kind\|known-finding\): (\{.*\})", r.stdout)
        meta["checks"][prop] = {"exit": r.returncode, "wall_s": round(time.time() - t, 1), "classes": json.loads(kinds[0]) if kinds else {},
                                "first_line": r.stdout.splitlines()[0] if r.stdout else "", "violation_lines": [l for l in r.stdout.splitlines() if l.startswith("VIOLATION")][:5]}
        if r.returncode == 1:     # keep the replays for the analysis
            for l in meta["checks"][prop]["violation_lines"]:
                m = re.search(r"replay=(\S+)", l)
                if m and os.path.exists(m.group(1)):
                    shutil.copy(m.group(1), os.path.join(dst, prop + "-" + os.path.basename(m.group(1))))
    meta["alarms"] = [p_ for p_, c in meta["checks"].items() if c["exit"] == 1]
    meta["inconclusive"] = [p_ for p_, c in meta["checks"].items() if c["exit"] not in (0, 1)]
    shutil.copy(patch, os.path.join(dst, "patch.diff"))
    if os.path.exists(notes):
        shutil.copy(notes, os.path.join(dst, "notes.md"))
    old = {}
    mp = os.path.join(dst, "meta.json")
    if os.path.exists(mp):
        old = json.load(open(mp))
        old_checks = old.get("checks", {})
        old_checks.update(meta["checks"])
        meta["checks"] = old_checks
        meta["alarms"] = [p_ for p_, c in meta["checks"].items() if c["exit"] == 1]
        meta["inconclusive"] = [p_ for p_, c in meta["checks"].items() if c["exit"] not in (0, 1)]
        meta["checked_against"] = sorted(meta["checks"])
    old.update(meta)
    json.dump(old, open(mp, "w"), indent=1)
    print(bid, json.dumps({"suite_ok": meta["suite_ok"], "alarms": meta["alarms"], "inconclusive": meta["inconclusive"]}), {p_: (c["exit"], c["classes"]) for p_, c in meta["checks"].items() if c["exit"] != 0 or c["classes"]})
finally:
    shutil.rmtree(tmp, ignore_errors=True)
