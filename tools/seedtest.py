#!/venv/bin/python
"""
Confirm and evaluate an independently written breaking change (seeded/<id>/).
usage: tools/seedtest.py <id> <tree-with-change-applied> <out-dir-with-patch-demo-notes> <prop> [more props...]
Steps: (1) the repository's suite on the changed tree keeps every stable test passing; (2) demo fails on the changed tree and passes on /repo;
(3) ./check <prop> --tier quick with VERIF_REPO=<tree> for each prop. Writes seeded/<id>/{patch.diff,demo.py,notes.md,meta.json}.
"""
import json, os, re, shutil, subprocess, sys, time
HERE = os.path.dirname(os.path.dirname(os.path.abspath(__file__)))
sid, tree, out = sys.argv[1:4]
props = sys.argv[4:]
dst = os.path.join(HERE, "seeded", sid)
os.makedirs(dst, exist_ok=True)
meta = {"id": sid, "breaks": props[0], "checked_against": props}
# (1) suite
for attempt in range(3):
    # the suite's own tests.test_recursive_number_partitioning.TestRNP::test_on_random_inputs draws random inputs and fails now and then on the unchanged tree
    # as well (it compares rnp with the ILP optimum: open finding KF-rnp-subopt), hence the retries
    p = subprocess.run([os.path.join(HERE, "tools", "baseline_check.py"), tree], capture_output=True, text=True, env=dict(os.environ, PYTHONPATH=tree))
    if p.returncode == 0:
        break
meta["suite_on_changed_tree"] = p.stdout.strip().splitlines()
meta["suite_ok"] = p.returncode == 0
# (2) demo
def demo(path):
    env = {k: v for k, v in os.environ.items()}
    env["PYTHONPATH"] = path
    r = subprocess.run(["/venv/bin/python", "-B", os.path.join(out, "demo.py")], capture_output=True, text=True, env=env, cwd=out, timeout=900)
    return r.returncode, (r.stdout + r.stderr)[-600:]
rc_changed, tail_changed = demo(tree)
rc_orig, tail_orig = demo("/repo")
meta["demo_exit_on_changed_tree"] = rc_changed
meta["demo_exit_on_unchanged_tree"] = rc_orig
meta["demo_output_on_changed_tree"] = tail_changed
meta["demo_ok"] = rc_changed != 0 and rc_orig == 0
# (3) checks
meta["checks"] = {}
for prop in props:
    t = time.time()
    r = subprocess.run([os.path.join(HERE, "check"), prop, "--tier", "quick", "--no-evidence"], cwd=HERE, env=dict(os.environ, VERIF_REPO=tree), capture_output=True, text=True)
    kinds = re.findall(r"violation classes \(alg\|kind\|known-finding\): (\{.*\})", r.stdout)
    meta["checks"][prop] = {"cmd": f"VERIF_REPO=<tree> ./check {prop} --tier quick --no-evidence", "exit": r.returncode, "wall_s": round(time.time() - t, 1),
                            "classes": json.loads(kinds[0]) if kinds else {}, "first_line": r.stdout.splitlines()[0] if r.stdout else ""}
meta["caught_by"] = [p_ for p_, c in meta["checks"].items() if c["exit"] == 1]
for f in ("patch.diff", "demo.py", "notes.md"):
    if os.path.exists(os.path.join(out, f)):
        shutil.copy(os.path.join(out, f), os.path.join(dst, f))
if not os.path.exists(os.path.join(dst, "patch.diff")):
    open(os.path.join(dst, "patch.diff"), "w").write(subprocess.run(["git", "-C", tree, "diff"], capture_output=True, text=True).stdout)
old = {}
mp = os.path.join(dst, "meta.json")
if os.path.exists(mp):
    old = json.load(open(mp))
old.update(meta)
json.dump(old, open(mp, "w"), indent=1)
print(json.dumps({k: meta[k] for k in ("suite_ok", "demo_ok", "caught_by")}), {p_: (c["exit"], c["classes"]) for p_, c in meta["checks"].items()})
