#!/venv/bin/python
"""Print the markdown table of seeded changes (seeded/*/meta.json) for DESIGN.md §11.5."""
import glob, json, os, re
HERE = os.path.dirname(os.path.dirname(os.path.abspath(__file__)))
rows = []
for mp in sorted(glob.glob(os.path.join(HERE, "seeded", "*", "meta.json"))):
    m = json.load(open(mp))
    sid = m["id"]
    patch = open(os.path.join(os.path.dirname(mp), "patch.diff")).read()
    files = sorted(set(re.findall(r"^\+\+\+ b/(\S+)", patch, flags=re.M)))
    kinds = []
    for p, c in m["checks"].items():
        ks = [k.split("|")[1] for k in c.get("classes", {}) if not k.split("|")[2]]
        kinds.append(f"{p}: {'exit ' + str(c['exit'])}" + (f" ({', '.join(sorted(set(ks)))[:70]})" if ks else ""))
    rows.append((sid, m["breaks"], ", ".join(os.path.basename(f) for f in files), ", ".join(m.get("caught_by", [])) or "—", "yes" if re.search(r"(?i)(?<![_a-z])missed", m.get("strengthening", "")) else "", "; ".join(kinds)))
print("| id | property | file changed | caught by | needed strengthening | checks run |")
print("|---|---|---|---|---|---|")
for r in rows:
    print("| " + " | ".join(r) + " |")
