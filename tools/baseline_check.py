#!/venv/bin/python
"""Run the repository's pinned suite (guard OFF) and confirm that every test in BASELINE.json's stable_pass passes."""
import json, os, subprocess, sys, tempfile, xml.etree.ElementTree as ET
repo = sys.argv[1] if len(sys.argv) > 1 else "/repo"
base = json.load(open("/root/.vp/BASELINE.json"))
tmp = tempfile.mktemp(suffix=".xml")
env = {k: v for k, v in os.environ.items() if k not in ("PRTPY_VERIF", "PYTHONPATH")}
subprocess.run(["/venv/bin/python", "-m", "pytest", "-ra", "-q", "-p", "no:cacheprovider", "--timeout=900",
                "--continue-on-collection-errors", f"--junitxml={tmp}"], cwd=repo, env=env,
               stdout=subprocess.DEVNULL, stderr=subprocess.DEVNULL)
passed = set()
for tc in ET.parse(tmp).getroot().iter("testcase"):
    if not any(c.tag in ("failure", "error", "skipped") for c in tc):
        passed.add(f"{tc.get('classname')}::{tc.get('name')}")
os.remove(tmp)
missing = [t for t in base["stable_pass"] if t not in passed]
print(f"baseline: {len(base['stable_pass']) - len(missing)}/{len(base['stable_pass'])} stable tests pass; {len(passed)} passed in total")
for t in missing:
    print("  NOT PASSING:", t)
sys.exit(1 if missing else 0)
