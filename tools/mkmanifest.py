#!/venv/bin/python
"""Regenerate MANIFEST.json from the table below (one row per property that has a registered check)."""
import json, os, sys
HERE = os.path.dirname(os.path.dirname(os.path.abspath(__file__)))
sys.path.insert(0, HERE)
ROWS = json.load(open(os.path.join(HERE, "tools", "manifest_rows.json")))
props = [json.loads(l)["id"] for l in open(os.path.join(HERE, "properties.jsonl"))]
checks, na = [], []
for pid in props:
    row = ROWS.get(pid)
    if row is None or not row.get("ready") or not os.path.exists(os.path.join(HERE, "rv", "props", pid.lower() + ".py")):
        na.append({"property_id": pid, "reason": (row or {}).get("na_reason", "check not registered yet (machinery under construction; see DESIGN.md §5)")})
        continue
    checks.append({
        "property_id": pid,
        "quick_cmd": f"./check {pid} --tier quick",
        "thorough_cmd": f"./check {pid} --tier thorough",
        "evidence_file": f"evidence/{pid}.json",
        "replay_cmd_template": f"./check {pid} --replay {{path}}",
        "engine": "rv",
        "level_claimed": {"category": row["level"], "text": row["text"], "design_ref": f"DESIGN.md §5 {pid}"},
        "level_note": row["note"],
        "technique": row["technique"],
    })
man = {
    "version": 1,
    "setup_cmd": "./setup.sh",
    "hooks": {
        "guard": "PRTPY_VERIF",
        "enable": "no source hooks: every monitor is attached from /verif at run time (wrappers, class-attribute contracts, module-attribute clock, sys.monitoring); ./check sets PRTPY_VERIF=1 for its workers and imports prtpy from /repo's working tree (PYTHONPATH), nothing is compiled",
        "baseline_off_cmd": "cd /repo && /venv/bin/python -m pytest -ra -q -p no:cacheprovider --timeout=900 --continue-on-collection-errors",
        "source_commits": [],
        "add_only": True,
    },
    "engines": [{"name": "rv", "path": "rv/", "serves_properties": [c["property_id"] for c in checks],
                 "kind_free_text": "Python runtime-monitoring harness: sharded worker subprocesses drive the real prtpy functions under boundary recorders, in-situ contracts (icontract), a counting clock, shadow models and sys.monitoring probes; deterministic oracles in rv/oracles.py and rv/refmodels.py never import prtpy"}],
    "checks": checks,
    "not_applicable": na,
    "notes": "Exit codes of ./check: 0 held on everything observed (KNOWN-FINDING lines possible), 1 VIOLATION, 2 INCONCLUSIVE (monitor floor not reached / harness failure; never folded into held). known_findings.json is the authority for open/fixed findings. VERIF_SEED / --seed selects the workload; VERIF_REPO=<dir> points the workers at another tree (self-test only).",
}
json.dump(man, open(os.path.join(HERE, "MANIFEST.json"), "w"), indent=1)
print("checks:", [c["property_id"] for c in checks], "not_applicable:", [n["property_id"] for n in na])
