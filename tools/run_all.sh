#!/bin/bash
# run every registered check of one tier sequentially; usage: tools/run_all.sh quick|thorough [seed] [extra args e.g. --no-evidence]
cd "$(dirname "$0")/.."
tier=${1:-quick}; seed=${2:-0}; shift; shift
rc=0
for p in C01 C02 C03 C04 C05 C06 C07 C08 C09 C10 C11 C12 C13 C14 C15 C16 C17 C18 C19 C20; do
  ./check $p --tier $tier --seed $seed "$@" 2>&1 | cut -c1-700 | grep -E "^\[C|VIOLATION|INCONCLUSIVE|KNOWN-FINDING|NOTE|violation classes" | cut -c1-330
  s=${PIPESTATUS[0]}; [ $s -ne 0 ] && { echo "  -> $p exit $s"; rc=1; }
done
exit $rc
